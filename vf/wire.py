"""Documents (ref_sgml terms and bytes) built from model terms *without* the library's writer.

doc(term): children in declared order; list members at the position of their own kind; element texts written by
vf.ref_types.write_value; OFX tags (YIELD/FROM for the two python aliases).
"""
from vf import ref_header as H
from vf import ref_schema as S
from vf import ref_sgml
from vf import ref_types as R
from vf import universe as U


def doc(term, text_override=None, path=()):
    """model term -> sgml term.  text_override: {path: text} where path is a tuple of attr names / ('#', index)."""
    name, kw, members = term
    cls = U.cls_by_name(name)
    chs = S.children(cls)
    out = []
    lkinds = [c for c in chs if c.kind in ("lagg", "lelem")]

    def kind_of(m):
        if S._isterm(m):
            for c in lkinds:
                if c.kind == "lagg" and c.target.__name__ == m[0]:
                    return c.name
        else:
            for c in lkinds:
                if c.kind == "lelem":
                    return c.name
        return None

    for c in chs:
        if c.kind == "elem" and c.name in kw:
            p = path + (c.name,)
            if text_override and p in text_override:
                txt = text_override[p]
            else:
                txt = R.write_value(c.typ, kw[c.name])
            out.append((S.tag_of(c.name), txt))
        elif c.kind == "sub" and c.name in kw:
            out.append(doc(kw[c.name], text_override, path + (c.name,)))
        elif c.kind in ("lagg", "lelem"):
            for i, m in enumerate(members):
                if kind_of(m) != c.name:
                    continue
                p = path + (("#", i),)
                if c.kind == "lagg":
                    out.append(doc(m, text_override, p))
                else:
                    txt = text_override[p] if text_override and p in text_override else R.write_value(c.typ, m)
                    out.append((c.name.upper(), txt))
    return (name, out)


def flatten_expected(term, text_override=None, path=()):
    """-> {path: norm key} of every data element of the document doc(term, text_override) as the OFX type rules
    read it (reference reading of the text, not of the python value)"""
    name, kw, members = term
    cls = U.cls_by_name(name)
    cm = S.child_map(cls)
    out = {}
    for k, v in kw.items():
        c = cm[k]
        p = path + (k,)
        if c.kind == "sub":
            out.update(flatten_expected(v, text_override, p))
            out[p + ("<class>",)] = ("cls", v[0])
        else:
            txt = text_override[p] if text_override and p in text_override else R.write_value(c.typ, v)
            out[p] = R.read_value(c.typ, c.params, txt)
    lelem = next((c for c in S.children(cls) if c.kind == "lelem"), None)
    for i, m in enumerate(members):
        p = path + (("#", i),)
        if S._isterm(m):
            out.update(flatten_expected(m, text_override, p))
            out[p + ("<class>",)] = ("cls", m[0])
        else:
            txt = text_override[p] if text_override and p in text_override else R.write_value(lelem.typ, m)
            out[p] = R.read_value(lelem.typ, lelem.params, txt)
    return out


def flatten_instance(inst):
    """library instance -> {path: norm key} read from the instance's own storage"""
    return _flat(S.inst_to_term(inst), ())


def _flat(term, path):
    name, kw, members = term
    out = {}
    for k, v in kw.items():
        p = path + (k,)
        if S._isterm(v):
            out.update(_flat(v, p))
            out[p + ("<class>",)] = ("cls", v[0])
        else:
            out[p] = S.norm_value(v)
    for i, m in enumerate(members):
        p = path + (("#", i),)
        if S._isterm(m):
            out.update(_flat(m, p))
            out[p + ("<class>",)] = ("cls", m[0])
        else:
            out[p] = S.norm_value(m)
    return out


def diff_flat(exp, got):
    for p in exp:
        if p not in got:
            return f"missing in model: {fmt_path(p)} (document says {exp[p]!r})"
        if exp[p] != got[p]:
            return f"{fmt_path(p)}: model has {got[p]!r}, document says {exp[p]!r}"
    for p in got:
        if p not in exp:
            return f"model holds {fmt_path(p)} = {got[p]!r} which is not in the document"
    return None


def fmt_path(p):
    return "/".join(f"[{x[1]}]" if isinstance(x, tuple) else str(x) for x in p)


def sgml_leafopts(sterm):
    """leaf options omitting every data-element end tag that may be omitted"""
    toks, nleaves = ref_sgml.tokens(sterm)
    return {leaf: (True, False) for leaf in range(nleaves) if ref_sgml.can_omit(toks, leaf)}


def to_bytes(sterm, form="xml", version=None, pretty=False):
    """sgml term -> whole OFX file bytes (header + body).  form: 'xml' (v2 header, all end tags) or 'sgml'
    (v1 header, CHARSET NONE = UTF-8, data-element end tags omitted)."""
    toks, _ = ref_sgml.tokens(sterm)
    gaps = [2 if pretty and 0 < i < len(toks) else 0 for i in range(len(toks) + 1)] if pretty else None
    if form == "xml":
        head = H.render_v2(H.v2_fields(version or 203))
        body = ref_sgml.render(sterm, None, gaps)
    else:
        head = H.render_v1(H.v1_fields(version or 102, encoding="UTF-8", charset="NONE"))
        body = ref_sgml.render(sterm, sgml_leafopts(sterm), gaps)
    return (head + body).encode("utf_8")


def lib_convert(data):
    import io

    from ofxtools.Parser import OFXTree

    tree = OFXTree()
    tree.parse(io.BytesIO(data))
    return tree.convert()


_REUSED_TREE = []


def lib_convert_reused(data):
    """parse + convert through ONE OFXTree object per process, as an application reading many files may do"""
    import io

    from ofxtools.Parser import OFXTree

    if not _REUSED_TREE:
        _REUSED_TREE.append(OFXTree())
    tree = _REUSED_TREE[0]
    tree.parse(io.BytesIO(data))
    return tree.convert()
