"""E5: in-process HTTP seam + scripted OFX server model.

urllib's HTTPHandler.http_open / HTTPSHandler.https_open are replaced (in this process only) by a function that
records (method, url, headers, body) and answers from a server model.  Everything above the socket stays real:
build_opener, HTTPCookieProcessor, redirect/error processors, header handling.
"""
import datetime
import email
import io
import urllib.error
import urllib.request
import urllib.response

from vf import ref_header as H
from vf import ref_schema as S
from vf import ref_sgml
from vf import ref_types as R
from vf import universe as U
from vf import wire

UTC = datetime.timezone.utc


class Exchange:
    __slots__ = ("method", "url", "headers", "body", "status", "resp_headers", "resp_body", "error", "seq")

    def __repr__(self):
        return f"<{self.method} {self.url} {len(self.body or b'')}B -> {self.status}>"


class Net:
    """the network as the harness sees it: servers by URL prefix, a log of exchanges, optional scheduling hook"""

    def __init__(self):
        self.log = []
        self.handler = None  # fn(exchange) -> (status, [(hdr, val)], body bytes)  or raises URLError
        self.point = None  # scheduling hook fn(label)
        self.installed = False

    def install(self):
        if self.installed:
            return
        net = self

        def _open(handler_self, req):
            return net._exchange(req)

        self._orig = (urllib.request.HTTPHandler.http_open, urllib.request.HTTPSHandler.https_open)
        urllib.request.HTTPHandler.http_open = _open
        urllib.request.HTTPSHandler.https_open = _open
        import socket

        self._orig_conn = socket.socket.connect

        def _no_connect(*a, **k):
            raise RuntimeError("harness error: attempt to open a real socket")

        socket.socket.connect = _no_connect
        # build_opener() creates an HTTPSHandler - and with it a default TLS context, loading the system certificates
        # (~20 ms) - on every call; no connection is ever made here, so one context is created once and reused
        import ssl

        self._orig_ctx = ssl._create_default_https_context
        cache = {}

        def _ctx(*a, **k):
            if "c" not in cache:
                cache["c"] = self._orig_ctx(*a, **k)
            return cache["c"]

        ssl._create_default_https_context = _ctx
        self.installed = True

    def uninstall(self):
        if not self.installed:
            return
        import socket

        urllib.request.HTTPHandler.http_open, urllib.request.HTTPSHandler.https_open = self._orig
        socket.socket.connect = self._orig_conn
        import ssl

        ssl._create_default_https_context = self._orig_ctx
        self.installed = False

    def _exchange(self, req):
        ex = Exchange()
        ex.seq = len(self.log)
        ex.method = req.get_method()
        ex.url = req.full_url
        hdrs = {}
        for k, v in list(req.headers.items()) + list(req.unredirected_hdrs.items()):
            hdrs[k.lower()] = v
        ex.headers = hdrs
        ex.body = req.data if isinstance(req.data, (bytes, bytearray)) or req.data is None else bytes(req.data)
        ex.status = ex.resp_headers = ex.resp_body = ex.error = None
        self.log.append(ex)
        if self.point:
            self.point("http-send " + ex.url)
        try:
            status, rh, body = self.handler(ex)
        except OSError as e:  # URLError, or a bare socket.timeout as urllib lets it through from getresponse()
            ex.error = repr(e)
            if self.point:
                self.point("http-fail " + ex.url)
            raise
        ex.status, ex.resp_headers, ex.resp_body = status, rh, body
        if self.point:
            self.point("http-recv " + ex.url)
        msg = email.message_from_string("".join(f"{k}: {v}\r\n" for k, v in rh) + "\r\n")
        resp = urllib.response.addinfourl(io.BytesIO(body), msg, ex.url, status)
        resp.msg = "OK"
        return resp


# ---------------------------------------------------------------------------------------------
# reading requests (reference reader)
# ---------------------------------------------------------------------------------------------
def read_request(body):
    """request bytes -> dict: version, sonrq fields, kind ('profile'|'statements'|'accounts'|'tax'|'other'), trnuids, dtprofup_ms, sdoc"""
    text = body.decode("utf_8")
    if text.startswith("<?xml"):
        i = text.index("?>", text.index("<?OFX")) + 2
        hdr = H.parse_written_v2(text[:i] + "\r\n")
    else:
        i = text.index("<", text.index("NEWFILEUID:"))
        hdr = H.parse_written_v1(text[:i])
    sdoc = ref_sgml.build(text[i:])
    out = {"version": int(hdr["VERSION"]), "sdoc": sdoc, "header": hdr}
    if sdoc[0] != "OFX":
        raise ValueError("root is not OFX")
    top = dict((t, b) for t, b in sdoc[1])
    son = dict(top["SIGNONMSGSRQV1"])["SONRQ"]
    out["sonrq"] = {t: (R.unescape(b) if isinstance(b, str) else b) for t, b in son}
    kinds = [t for t, b in sdoc[1] if t != "SIGNONMSGSRQV1"]
    out["msgsets"] = kinds
    out["kind"] = {"PROFMSGSRQV1": "profile", "SIGNUPMSGSRQV1": "accounts", "TAX1099MSGSRQV1": "tax"}.get(kinds[0], "statements") if kinds else "statements"
    uids = []

    def walk(node):
        t, b = node
        if isinstance(b, str):
            if t == "TRNUID":
                uids.append(b)
        else:
            for ch in b:
                walk(ch)

    walk(sdoc)
    out["trnuids"] = uids
    if out["kind"] == "profile":
        trn = dict(top["PROFMSGSRQV1"])["PROFTRNRQ"]
        rq = dict(dict(trn)["PROFRQ"])
        out["dtprofup_ms"] = R.read_datetime(rq["DTPROFUP"])
    return out


# ---------------------------------------------------------------------------------------------
# building responses (reference renderer; independent of the library's writer)
# ---------------------------------------------------------------------------------------------
def set_path(term, path, value):
    name, kw, mem = term
    if len(path) == 1:
        kw2 = dict(kw)
        kw2[path[0]] = value
        cls = U.cls_by_name(name)
        return (name, {c.name: kw2[c.name] for c in S.children(cls) if c.name in kw2}, mem)
    kw2 = dict(kw)
    kw2[path[0]] = set_path(kw[path[0]], path[1:], value)
    return (name, kw2, mem)


def msgset(clsname, url, extra=None):
    cls = U.cls_by_name(clsname)
    t = U.MIN(cls)
    v1name = [c for c in S.children(cls) if c.kind == "sub"][0].name
    t = set_path(t, (v1name, "msgsetcore", "url"), url)
    for p, v in (extra or {}).items():
        t = set_path(t, (v1name,) + p, v)
    return t


def sonrs_term(code=0):
    return ("SIGNONMSGSRSV1", {"sonrs": ("SONRS", {"status": ("STATUS", {"code": code, "severity": "INFO" if code == 0 else "ERROR"}, []), "dtserver": datetime.datetime(2024, 1, 1, tzinfo=UTC), "language": "ENG"}, [])}, [])


def profile_response(trnuid, dtprofup, urls, version=203, form="xml", status=0, padding=0, pretty=False, closingavail=True):
    """urls: {'bank':..., 'cc':..., 'inv':...} (any subset).  status 0: full profile; 1: up to date (no PROFRS);
    other: error status without PROFRS."""
    st = ("STATUS", {"code": status, "severity": "INFO" if status in (0, 1) else "ERROR"}, [])
    kw = {"trnuid": trnuid, "status": st}
    if status == 0:
        sets = [msgset("SIGNONMSGSET", urls.get("signon", urls.get("bank", "http://x/")))]
        if "bank" in urls:
            sets.append(msgset("BANKMSGSET", urls["bank"], {("closingavail",): closingavail}))
        if "cc" in urls:
            sets.append(msgset("CREDITCARDMSGSET", urls["cc"], {("closingavail",): closingavail}))
        if "inv" in urls:
            sets.append(msgset("INVSTMTMSGSET", urls["inv"]))
        sets.append(msgset("PROFMSGSET", urls.get("prof", urls.get("bank", "http://x/"))))
        prof = U.MIN(U.cls_by_name("PROFRS"))
        prof = set_path(prof, ("msgsetlist",), ("MSGSETLIST", {}, sets))
        prof = set_path(prof, ("dtprofup",), dtprofup)
        prof = set_path(prof, ("finame",), "Bank " + "x" * min(padding, 27))
        kw["profrs"] = prof
    trn = ("PROFTRNRS", kw, [])
    ofx = ("OFX", {"signonmsgsrsv1": sonrs_term(), "profmsgsrsv1": ("PROFMSGSRSV1", {}, [trn])}, [])
    return wire.to_bytes(wire.doc(ofx), form, version=version if (form == "xml") == (version >= 200) else (203 if form == "xml" else 102), pretty=pretty)


def generic_response(kind, trnuids, form="xml", version=203, acctinfos=None):
    """a syntactically valid, minimal response for statements / accounts / tax requests"""
    kw = {"signonmsgsrsv1": sonrs_term()}
    if kind == "accounts":
        rs = ("ACCTINFORS", {"dtacctup": datetime.datetime(2024, 1, 1, tzinfo=UTC)}, list(acctinfos or []))
        st = ("STATUS", {"code": 0, "severity": "INFO"}, [])
        kw["signupmsgsrsv1"] = ("SIGNUPMSGSRSV1", {}, [("ACCTINFOTRNRS", {"trnuid": trnuids[0] if trnuids else "0", "status": st, "acctinfors": rs}, [])])
    ofx = ("OFX", kw, [])
    return wire.to_bytes(wire.doc(ofx), form, version=203 if form == "xml" else 102)


def ok(body, cookies=()):
    hdrs = [("Content-Type", "application/x-ofx"), ("Content-Length", str(len(body)))]
    for c in cookies:
        hdrs.append(("Set-Cookie", c))
    return 200, hdrs, body
