"""Reference reader/renderer for the OFX wire syntax (E6, ref_sgml).

Independent of ofxtools.Parser: a character-level scanner, a strict stack-based tree builder and a
renderer from document terms to text.  No regular expressions.

Term:  aggregate  = (TAG, [child, ...])      (possibly empty list)
       data elem  = (TAG, "data")            (data: trimmed, still entity-escaped)
"""

START, END, CDATA, TEXT = "S", "E", "C", "T"
WS = " \t\r\n\f\v"


class RefSyntaxError(Exception):
    pass


def scan(text):
    """text -> list of (kind, value).  TEXT tokens are kept raw (untrimmed), blank ones included."""
    toks = []
    i, n = 0, len(text)
    while i < n:
        c = text[i]
        if c == "<":
            if text.startswith("<![CDATA[", i):
                j = text.find("]]>", i + 9)
                if j < 0:
                    raise RefSyntaxError("unterminated CDATA section")
                toks.append((CDATA, text[i + 9 : j]))
                i = j + 3
                continue
            j = text.find(">", i + 1)
            if j < 0:
                raise RefSyntaxError("unterminated tag")
            name = text[i + 1 : j]
            if "<" in name:
                raise RefSyntaxError("'<' inside a tag")
            if name.startswith("/"):
                nm = name[1:]
                _checkname(nm)
                toks.append((END, nm))
            else:
                _checkname(name)
                toks.append((START, name))
            i = j + 1
        else:
            j = text.find("<", i)
            if j < 0:
                j = n
            toks.append((TEXT, text[i:j]))
            i = j
    return toks


_NAMECHARS = set("ABCDEFGHIJKLMNOPQRSTUVWXYZ0123456789._")


def _checkname(name):
    if not name or any(ch not in _NAMECHARS for ch in name):
        raise RefSyntaxError(f"bad tag name {name!r}")


def _trim(s):
    return s.strip(WS)


def build(text):
    """Strict builder: returns the term of a well-formed body or raises RefSyntaxError.

    Rules: every aggregate (element without data) is closed by its own end tag; a data element
    (start tag followed by non-blank character data or a CDATA section) may omit its end tag and is
    then closed implicitly by the next tag; names of end tags match the open element; exactly one
    top-level element; nothing but white space outside elements or after end tags."""
    toks = scan(text)
    root = None
    stack = []  # entries: [tag, children(list) or None, data or None]
    rootdone = False

    def close_top():
        nonlocal root, rootdone
        tag, children, data = stack.pop()
        node = (tag, data) if data is not None else (tag, children)
        if stack:
            stack[-1][1].append(node)
        else:
            root = node
            rootdone = True

    prev = None
    for kind, val in toks:
        if kind == TEXT:
            t = _trim(val)
            if not t:
                continue
            # data is allowed only directly after a start tag
            if prev == START and stack and stack[-1][2] is None and not stack[-1][1]:
                stack[-1][2] = t
                prev = TEXT
                continue
            raise RefSyntaxError(f"stray text {t!r}")
        if kind == CDATA:
            if prev == START and stack and stack[-1][2] is None and not stack[-1][1]:
                stack[-1][2] = val
                prev = CDATA
                continue
            raise RefSyntaxError("stray CDATA section")
        if kind == START:
            if stack and stack[-1][2] is not None:
                close_top()  # implicit end of a data element
            if rootdone:
                raise RefSyntaxError("second top-level element")
            if stack and stack[-1][2] is not None:
                raise RefSyntaxError("internal")
            stack.append([val, [], None])
            prev = START
            continue
        if kind == END:
            if stack and stack[-1][2] is not None and stack[-1][0] != val:
                close_top()  # implicit end of a data element, then this closes its parent
            if not stack:
                raise RefSyntaxError(f"stray end tag {val}")
            if stack[-1][0] != val:
                raise RefSyntaxError(f"end tag {val} does not match open {stack[-1][0]}")
            close_top()
            prev = END
            continue
    if stack and stack[-1][2] is not None:
        close_top()
    if stack:
        raise RefSyntaxError(f"unclosed aggregate {stack[-1][0]}")
    if root is None:
        raise RefSyntaxError("no element")
    return root


# ---------------------------------------------------------------------------------------------
# rendering
# ---------------------------------------------------------------------------------------------
GAPS = ["", " ", "\n", "\r\n\t  "]


def tokens(term):
    """Full token list of a term (all end tags present).  Entries:
    ("S", tag, leafno|None) ("D", data, leafno) ("E", tag, leafno|None)."""
    out = []
    counter = [0]

    def walk(node):
        tag, body = node
        if isinstance(body, str):
            k = counter[0]
            counter[0] += 1
            out.append(("S", tag, k))
            out.append(("D", body, k))
            out.append(("E", tag, k))
        else:
            out.append(("S", tag, None))
            for ch in body:
                walk(ch)
            out.append(("E", tag, None))

    walk(term)
    return out, counter[0]


def can_omit(toks, leaf):
    """A data element may omit its end tag unless the next tag is an end tag of the same name
    (then that end tag would be taken for its own: the notation is ambiguous there)."""
    for i, (k, v, lf) in enumerate(toks):
        if k == "E" and lf == leaf:
            nxt = toks[i + 1] if i + 1 < len(toks) else None
            return not (nxt is not None and nxt[0] == "E" and nxt[1] == v)
    return False


def can_cdata(data):
    return "&" not in data and "]]>" not in data and data != ""


def render(term, leafopts=None, gaps=None):
    """leafopts[leafno] = (omit_end: bool, cdata: bool); gaps[i] = index into GAPS for the gap *before*
    token i (len(tokens)+1 entries, last = after the final token).  Gaps touching a CDATA section
    inside its own element are forced empty."""
    toks, nleaves = tokens(term)
    leafopts = leafopts or {}
    out = []
    n = len(toks)
    for i, (k, v, leaf) in enumerate(toks):
        g = GAPS[gaps[i]] if gaps else ""
        omit, cd = leafopts.get(leaf, (False, False)) if leaf is not None else (False, False)
        if cd and k in ("D", "E"):
            g = ""  # no white space between <T> and CDATA, nor between CDATA and </T>
        if k == "S":
            out.append(g + "<" + v + ">")
        elif k == "D":
            out.append(g + ("<![CDATA[" + v + "]]>" if cd else v))
        else:
            if leaf is not None and omit:
                out.append(g if not cd else "")
            else:
                out.append(g + "</" + v + ">")
    out.append(GAPS[gaps[n]] if gaps else "")
    return "".join(out)


def et_to_term(elem):
    """xml.etree Element -> term, raising ValueError if the element tree holds anything a term cannot
    (text on an aggregate, tails, attributes)."""
    if elem.attrib:
        raise ValueError(f"attributes on {elem.tag}")
    if elem.tail is not None and elem.tail.strip(WS):
        raise ValueError(f"tail text on {elem.tag}: {elem.tail!r}")
    if len(elem) == 0:
        if elem.text:
            return (elem.tag, elem.text)
        return (elem.tag, [])
    if elem.text is not None and elem.text.strip(WS):
        raise ValueError(f"text on aggregate {elem.tag}: {elem.text!r}")
    return (elem.tag, [et_to_term(c) for c in elem])


def term_to_xml(term, indent=None):
    """Canonical rendering (all end tags, no white space)."""
    return render(term)


def selfcheck():
    t = ("A", [("B1", "x"), ("C.D_E", []), ("A", [("B1", "a b")])])
    toks, nl = tokens(t)
    for omit in (False, True):
        for cd in (False, True):
            for g in range(len(GAPS)):
                txt = render(t, {0: (omit, cd), 1: (omit, False)}, [g] * (len(toks) + 1))
                if build(txt) != t:
                    raise AssertionError(f"ref_sgml selfcheck failed on {txt!r}")
    for bad in ("<A><B>x", "<A></B>", "<A></A><A></A>", "<A>x</A>y", "<A><B></A></B>", "", "x"):
        try:
            build(bad)
        except RefSyntaxError:
            continue
        raise AssertionError(f"ref_sgml accepted {bad!r}")
