"""E4: file-operation observer and crash-state generator.

The code under test keeps using the real file system (a private root).  Thin wrappers on the stdlib names every
realistic implementation goes through - builtins.open / io.open (hence pathlib.Path.open/write_bytes/write_text,
tempfile), os.replace / os.rename, os.remove / os.unlink, os.fsync, os.truncate - log each mutating operation on paths
under the private root, call the real function, and are scheduling points.
"""
import builtins
import io
import os

_real_open = builtins.open


class Observer:
    def __init__(self, root):
        self.root = os.path.realpath(root)
        self.log = []  # (op, ...)
        self.point = None  # fn(label)
        self.installed = False
        self.nextid = 0

    def under(self, path):
        try:
            p = os.path.realpath(os.fspath(path))
        except TypeError:
            return None
        return p if p.startswith(self.root + os.sep) else None

    def _pt(self, label):
        if self.point:
            self.point(label)

    def install(self):
        if self.installed:
            return
        obs = self
        self._orig = dict(open=builtins.open, ioopen=io.open, replace=os.replace, rename=os.rename, remove=os.remove, unlink=os.unlink, fsync=os.fsync, truncate=os.truncate)

        def v_open(file, mode="r", *a, **k):
            writing = any(ch in mode for ch in "wax+")
            if not writing:
                p = obs.under(file) if isinstance(file, (str, bytes, os.PathLike)) else None
                if p:
                    obs._pt("open-read " + os.path.basename(p))
                return obs._orig["open"](file, mode, *a, **k)
            if isinstance(file, (str, bytes, os.PathLike)) and not k.get("opener") and obs.under(file):
                obs._pt("open-write " + os.path.basename(os.fspath(file)))
            f = obs._orig["open"](file, mode, *a, **k)
            try:
                real = os.readlink(f"/proc/self/fd/{f.fileno()}")
            except Exception:
                real = None
            p = obs.under(real) if real else None
            if not p:
                return f
            hid = obs.nextid
            obs.nextid += 1
            obs.log.append(("open", hid, p, "trunc" if "w" in mode else ("append" if "a" in mode else "keep")))
            return _Proxy(obs, f, hid, p, "b" in mode)

        def v_replace(src, dst, *a, **k):
            ps, pd = obs.under(src), obs.under(dst)
            if ps or pd:
                obs._pt("replace " + os.path.basename(os.fspath(dst)))
            r = obs._orig["replace"](src, dst, *a, **k)
            if ps or pd:
                obs.log.append(("rename", ps or os.fspath(src), pd or os.fspath(dst)))
            return r

        def v_rename(src, dst, *a, **k):
            ps, pd = obs.under(src), obs.under(dst)
            if ps or pd:
                obs._pt("rename " + os.path.basename(os.fspath(dst)))
            r = obs._orig["rename"](src, dst, *a, **k)
            if ps or pd:
                obs.log.append(("rename", ps or os.fspath(src), pd or os.fspath(dst)))
            return r

        def v_remove(path, *a, **k):
            p = obs.under(path)
            if p:
                obs._pt("unlink " + os.path.basename(p))
            r = obs._orig["remove"](path, *a, **k)
            if p:
                obs.log.append(("unlink", p))
            return r

        def v_fsync(fd):
            obs.log.append(("fsync", fd))
            return obs._orig["fsync"](fd)

        builtins.open = v_open
        io.open = v_open
        os.replace = v_replace
        os.rename = v_rename
        os.remove = v_remove
        os.unlink = v_remove
        os.fsync = v_fsync
        self.installed = True

    def uninstall(self):
        if not self.installed:
            return
        o = self._orig
        builtins.open = o["open"]
        io.open = o["ioopen"]
        os.replace, os.rename, os.remove, os.unlink, os.fsync = o["replace"], o["rename"], o["remove"], o["unlink"], o["fsync"]
        self.installed = False


class _Proxy:
    """delegating file proxy that logs writes"""

    def __init__(self, obs, f, hid, path, binary):
        self.__dict__.update(_obs=obs, _f=f, _hid=hid, _path=path, _binary=binary)

    def write(self, data):
        self._obs._pt("write " + os.path.basename(self._path))
        b = bytes(data) if self._binary else str(data).encode(getattr(self._f, "encoding", None) or "utf-8")
        self._obs.log.append(("write", self._hid, b))
        return self._f.write(data)

    def writelines(self, lines):
        for ln in lines:
            self.write(ln)

    def truncate(self, size=None):
        self._obs.log.append(("truncate", self._hid, size))
        return self._f.truncate(size) if size is not None else self._f.truncate()

    def flush(self):
        return self._f.flush()

    def close(self):
        if not self._f.closed:
            self._obs._pt("close " + os.path.basename(self._path))
            self._obs.log.append(("close", self._hid))
        return self._f.close()

    def __enter__(self):
        self._f.__enter__()
        return self

    def __exit__(self, *exc):
        self.close()
        return False

    def __iter__(self):
        return iter(self._f)

    def __getattr__(self, name):
        return getattr(self._f, name)

    def __setattr__(self, name, value):
        setattr(self._f, name, value)

    def __del__(self):
        try:
            if not self._f.closed:
                self._obs.log.append(("close", self._hid))
                self._f.close()
        except Exception:
            pass


# ---------------------------------------------------------------------------------------------
# crash states
# ---------------------------------------------------------------------------------------------
def snapshot(root):
    out = {}
    for dp, dn, fn in os.walk(root):
        for f in fn:
            p = os.path.join(dp, f)
            with _real_open(p, "rb") as fh:
                out[os.path.realpath(p)] = fh.read()
    return out


def crash_states(initial, log, granularity="coarse"):
    """initial: {path: bytes}; log: Observer.log of ONE execution.  Yields (label, {path: bytes}) for every state a
    process crash can leave: for every prefix of the log, data written through handles still open may have reached
    the file only partially (every prefix length at the chosen granularity: coarse = 0, 1, half, n-1, n and 512-byte
    boundaries; fine = every byte).  Data of closed handles is complete; renames are atomic."""
    n = len(log)
    seen = set()
    for cut in range(n + 1):
        files = dict(initial)
        handles = {}  # hid -> [path, base bytes (durable), pending bytes]
        for op in log[:cut]:
            k = op[0]
            if k == "open":
                _, hid, p, how = op
                base = b"" if how == "trunc" else files.get(p, b"")
                files[p] = base
                handles[hid] = [p, base, b""]
            elif k == "write":
                _, hid, b = op
                if hid in handles:
                    handles[hid][2] += b
            elif k == "close":
                _, hid = op
                if hid in handles:
                    p, base, pend = handles.pop(hid)
                    if p in files or True:
                        files[p] = base + pend
            elif k == "rename":
                _, s, d = op
                # an open handle follows its file
                for h in handles.values():
                    if h[0] == s:
                        h[0] = d
                if s in files:
                    files[d] = files.pop(s)
            elif k == "unlink":
                files.pop(op[1], None)
        # pending data of open handles: any prefix may be on disk
        open_h = list(handles.values())
        if not open_h:
            key = tuple(sorted(files.items()))
            if key not in seen:
                seen.add(key)
                yield f"after-op-{cut}", files
            continue
        # vary one handle at a time, others fully flushed / not at all
        for hi, (p, base, pend) in enumerate(open_h):
            m = len(pend)
            if granularity == "fine":
                lens = range(m + 1)
            else:
                lens = sorted({0, 1, m // 2, max(m - 1, 0), m} | set(range(512, m, 512)))
                lens = [x for x in lens if 0 <= x <= m]
            for ln in lens:
                f2 = dict(files)
                for hj, (p2, b2, pd2) in enumerate(open_h):
                    f2[p2] = b2 + (pd2[:ln] if hj == hi else pd2)
                key = tuple(sorted(f2.items()))
                if key not in seen:
                    seen.add(key)
                    yield f"after-op-{cut}-torn-{ln}of{m}", f2


def materialize(files, oldroot, newroot):
    """write a crash state into a fresh directory (paths re-rooted)"""
    for p, b in files.items():
        rel = os.path.relpath(p, os.path.realpath(oldroot))
        q = os.path.join(newroot, rel)
        os.makedirs(os.path.dirname(q), exist_ok=True)
        with _real_open(q, "wb") as fh:
            fh.write(b)
