"""Reference tables and generators for OFX headers (v1 flat text, v2 XML processing instructions)."""

SUPPORTED_V1 = [102, 103, 151, 160]
SUPPORTED_V2 = [200, 201, 202, 203, 210, 211, 220]
V1_FIELDS = ["OFXHEADER", "DATA", "VERSION", "SECURITY", "ENCODING", "CHARSET", "COMPRESSION", "OLDFILEUID", "NEWFILEUID"]
V2_FIELDS = ["OFXHEADER", "VERSION", "SECURITY", "OLDFILEUID", "NEWFILEUID"]
DOMAINS_V1 = {
    "OFXHEADER": ["100"],
    "DATA": ["OFXSGML"],
    "SECURITY": ["NONE", "TYPE1"],
    "ENCODING": ["USASCII", "UNICODE", "UTF-8"],
    "CHARSET": ["ISO-8859-1", "1252", "NONE"],
    "COMPRESSION": ["NONE"],
}
CODECS = {"ISO-8859-1": "latin_1", "1252": "cp1252", "NONE": "utf_8"}
UID_ALPHABET = "ABCDEFGHIJKLMNOPQRSTUVWXYZabcdefghijklmnopqrstuvwxyz0123456789_-"


def v1_fields(version, security=None, encoding=None, charset=None, compression="NONE", old=None, new=None):
    """expected field values (as strings) of a v1 header"""
    return {
        "OFXHEADER": "100",
        "DATA": "OFXSGML",
        "VERSION": str(version),
        "SECURITY": security or "NONE",
        "ENCODING": encoding or "USASCII",
        "CHARSET": charset or "NONE",
        "COMPRESSION": compression or "NONE",
        "OLDFILEUID": old or "NONE",
        "NEWFILEUID": new or "NONE",
    }


def v2_fields(version, security=None, old=None, new=None):
    return {"OFXHEADER": "200", "VERSION": str(version), "SECURITY": security or "NONE", "OLDFILEUID": old or "NONE", "NEWFILEUID": new or "NONE"}


def render_v1(fields, order=None, seps=None, blanks=0, leading="", gap="\r\n\r\n", omit=()):
    """fields: dict; order: field names in file order; seps: list of separators, seps[i] after field i
    (the last one is not used: `gap` follows the final field)."""
    order = [f for f in (order or V1_FIELDS) if f not in omit]
    seps = seps or ["\r\n"] * (len(order) - 1)
    out = [leading]
    for i, f in enumerate(order):
        out.append(f"{f}:{' ' * blanks}{fields[f]}")
        if i < len(order) - 1:
            out.append(seps[i])
    out.append(gap)
    return "".join(out)


def render_v2(fields, quote='"', standalone=True, br1="\r\n", br2="\r\n", leading="", order=None, omit=(), ofxquote='"', encoding_attr=True):
    order = [f for f in (order or V2_FIELDS) if f not in omit]
    x = f"<?xml version={quote}1.0{quote}"
    if encoding_attr:
        x += f" encoding={quote}UTF-8{quote}"
    if standalone:
        x += f" standalone={quote}no{quote}"
    x += "?>"
    attrs = " ".join(f"{f}={ofxquote}{fields[f]}{ofxquote}" for f in order)
    return f"{leading}{x}{br1}<?OFX {attrs}?>{br2}"


def header_obj_fields(h):
    """library header object -> dict of strings keyed like the field tables"""
    out = {}
    for f in V1_FIELDS:
        a = f.lower()
        if hasattr(type(h), a):
            out[f] = str(getattr(h, a))
    return out


def parse_written_v1(text):
    """strict reading of what the library writes for v1: KEY:VALUE lines separated by CRLF, closed by a blank line"""
    if not text.endswith("\r\n\r\n"):
        raise ValueError("v1 header must end with a blank line")
    lines = text[:-4].split("\r\n")
    d = {}
    keys = []
    for ln in lines:
        k, sep, v = ln.partition(":")
        if not sep:
            raise ValueError(f"bad header line {ln!r}")
        d[k] = v
        keys.append(k)
    if keys != V1_FIELDS:
        raise ValueError(f"fields {keys}")
    return d


def parse_written_v2(text):
    if not text.startswith("<?xml "):
        raise ValueError("no xml declaration")
    i = text.index("?>")
    rest = text[i + 2 :]
    rest = rest.lstrip("\r\n")
    if not (rest.startswith("<?OFX ") and rest.rstrip("\r\n").endswith("?>")):
        raise ValueError("no OFX declaration")
    inner = rest.rstrip("\r\n")[6:-2]
    d = {}
    keys = []
    for part in inner.split(" "):
        k, _, v = part.partition("=")
        if not (v.startswith('"') and v.endswith('"')):
            raise ValueError("bad attribute")
        d[k] = v[1:-1]
        keys.append(k)
    if keys != V2_FIELDS:
        raise ValueError(f"fields {keys}")
    return d
