"""E3: deterministic thread scheduler - stateless, preemption-bounded exploration of real threads.

Real threading.Thread objects, exactly one runnable at a time (per-thread semaphore baton, passed directly between
workers).  Scheduling points are either *seam* points (the harness' file/HTTP seams call sched.point(label)) or *line*
points (sys.settrace 'line' events in files under given directory prefixes).

A schedule is the list of choices taken at the points: choice 0 = canonical default (keep running the current thread
if it is still enabled, else the lowest thread id), choice k = k-th thread in canonical order (running thread first,
then ascending ids).
"""
import sys
import threading

from vf.core import HarnessError


class Run:
    __slots__ = ("choices", "nenabled", "running_enabled", "labels", "results", "errors", "deadlock", "switches", "fresh")


class Scheduler:
    def __init__(self, bodies, prefix=(), trace_prefixes=None, record_labels=False, horizon=5_000_000, granularity="line"):
        self.bodies = bodies
        self.n = len(bodies)
        self.prefix = list(prefix)
        self.trace_prefixes = tuple(trace_prefixes or ())
        self.record_labels = record_labels
        self.horizon = horizon
        self.granularity = granularity  # "line": every line executed in traced files; "call": every function entry
        self.sems = [threading.Semaphore(0) for _ in range(self.n)]
        self.done = [False] * self.n
        self.current = None
        self.k = 0  # index of the next point
        self.choices = []
        self.nenabled = []
        self.running_enabled = []
        self.labels = []
        self.fresh = []  # per point: first visit of this code location by the running thread?
        self.visited = [set() for _ in range(self.n)]
        self.results = [None] * self.n
        self.errors = [None] * self.n
        self.idents = {}
        self.finished = threading.Semaphore(0)
        self.failure = None

    # -- canonical order ------------------------------------------------------------------------
    def _enabled(self, running):
        alive = [i for i in range(self.n) if not self.done[i]]
        if running is not None and not self.done[running]:
            return [running] + [i for i in alive if i != running]
        return alive

    def _decide(self, running, label):
        en = self._enabled(running)
        k = self.k
        self.k += 1
        if k >= self.horizon:
            self.failure = f"horizon of {self.horizon} points exceeded"
            raise HarnessError(self.failure)
        c = self.prefix[k] if k < len(self.prefix) else 0
        if c >= len(en):
            self.failure = f"schedule diverged while replaying: choice {c} at point {k} but only {len(en)} thread(s) enabled"
            raise HarnessError(self.failure)
        self.choices.append(c)
        if running is not None and label is not None and not isinstance(label, str):
            v = self.visited[running]
            if label in v:
                self.fresh.append(False)
            else:
                v.add(label)
                self.fresh.append(True)
        else:
            self.fresh.append(True)
        self.nenabled.append(len(en))
        self.running_enabled.append(running is not None and not self.done[running])
        if self.record_labels:
            self.labels.append((running, label))
        return en[c] if en else None

    # -- called by the running worker ------------------------------------------------------------
    def point(self, label=""):
        me = self.idents.get(threading.get_ident())
        if me is None or me != self.current:
            return  # not one of ours (or tracing noise before the baton arrived)
        nxt = self._decide(me, label)
        if nxt != me:
            self.current = nxt
            self.sems[nxt].release()
            self.sems[me].acquire()

    def _tracer(self, frame, event, arg):
        fn = frame.f_code.co_filename
        if not fn.startswith(self.trace_prefixes):
            return None
        if self.granularity == "call":
            if event == "call":
                self.point((fn, frame.f_code.co_firstlineno))
            return None
        return self._local

    def _local(self, frame, event, arg):
        if event == "line":
            self.point((frame.f_code.co_filename, frame.f_lineno))
        return self._local

    def _worker(self, i):
        self.idents[threading.get_ident()] = i
        self.sems[i].acquire()
        if self.trace_prefixes:
            sys.settrace(self._tracer)
        try:
            self.results[i] = self.bodies[i]()
        except HarnessError as e:
            self.failure = str(e)
        except BaseException as e:  # the body's own failure is an observation, not a harness error
            self.errors[i] = e
        finally:
            if self.trace_prefixes:
                sys.settrace(None)
            self.done[i] = True
            try:
                nxt = self._decide(None, "finish") if not all(self.done) else None
            except HarnessError:
                nxt = None
            if nxt is not None:
                self.current = nxt
                self.sems[nxt].release()
            else:
                self.finished.release()

    def run(self, timeout=60.0):
        threads = [threading.Thread(target=self._worker, args=(i,), daemon=True) for i in range(self.n)]
        for t in threads:
            t.start()
        # wait until every worker registered its ident
        import time

        t0 = time.time()
        while len(self.idents) < self.n:
            if time.time() - t0 > 5:
                raise HarnessError("workers did not start")
            time.sleep(0.0005)
        first = self._decide(None, "start")
        self.current = first
        self.sems[first].release()
        ok = self.finished.acquire(timeout=timeout)
        r = Run()
        r.choices, r.nenabled, r.running_enabled, r.labels = self.choices, self.nenabled, self.running_enabled, self.labels
        r.fresh = self.fresh
        r.results, r.errors = self.results, self.errors
        r.deadlock = not ok
        r.switches = sum(1 for c in self.choices if c != 0)
        if self.failure:
            # let blocked workers go so that the process can exit
            for s in self.sems:
                s.release()
            raise HarnessError(self.failure)
        if not ok:
            for s in self.sems:
                s.release()
        for t in threads:
            t.join(timeout=1.0)
        return r


def explore(make_bodies, bound, check, trace_prefixes=None, max_executions=None, record_labels=False, granularity="line", first_visits_only=False):
    """Iterative context bounding.  first_visits_only: preempt a thread only at the first visit of each code location
    (line or function) - a systematic reduction of the preemption points, reported as such by the caller.  make_bodies() -> list of callables on FRESH state (called once per execution);
    check(run) inspects one complete execution.  Returns dict(executions, points_max, capped)."""
    stack = [[]]
    executions = 0
    maxpoints = 0
    capped = False
    while stack:
        prefix = stack.pop()
        bodies = make_bodies()
        x = Scheduler(bodies, prefix, trace_prefixes, record_labels, granularity=granularity).run()
        executions += 1
        maxpoints = max(maxpoints, len(x.choices))
        check(x)
        if max_executions and executions >= max_executions:
            capped = bool(stack)
            break
        pre = 0
        costs = []
        for i, c in enumerate(x.choices):
            costs.append(pre)
            if c != 0 and x.running_enabled[i]:
                pre += 1
        for i in range(len(prefix), len(x.choices)):
            ne = x.nenabled[i]
            if ne <= 1:
                continue
            if first_visits_only and x.running_enabled[i] and not x.fresh[i]:
                continue
            cost = costs[i] + (1 if x.running_enabled[i] else 0)
            if bound is not None and cost > bound:
                continue
            for alt in range(1, ne):
                stack.append(x.choices[:i] + [alt])
    return {"executions": executions, "points_max": maxpoints, "capped": capped}
