"""E2: explicit-state explorer over real objects.  A state is the event history that reaches it; it is rebuilt by
replaying the history on fresh real objects.  De-duplication by a canonical key of the property-relevant state."""


def bfs(system, events, depth, tally, on_transition=None):
    """system.replay(history) -> (key, failures_for_last_event:list[(sig, case, detail)])
    Returns dict(states, transitions, max_depth, fixpoint, samples)."""
    key0, _ = system.replay(())
    seen = {key0: ()}
    frontier = [()]
    transitions = 0
    maxd = 0
    samples = []
    fix = False
    for d in range(1, depth + 1):
        new = []
        for hist in frontier:
            for ev in events:
                h2 = hist + (ev,)
                key, fails = system.replay(h2)
                transitions += 1
                for sig, case, detail in fails:
                    tally.fail(sig, case, detail)
                if len(samples) < 3 and d == min(depth, 2):
                    samples.append([list(map(str, h2)), str(key)[:300]])
                if key not in seen:
                    seen[key] = h2
                    new.append(h2)
                    maxd = d
        frontier = new
        if not frontier:
            fix = True
            break
    return {"states": len(seen), "transitions": transitions, "max_depth": maxd, "fixpoint": fix, "samples": samples, "frontier_left": len(frontier)}


def bfs_pool(workers, replay_chunk, events, depth, tally):
    """the same search, level-synchronous over a process pool: replay_chunk(list of histories) -> [(history, key,
    failures)] runs in pool workers (each builds its own system); de-duplication and the frontier stay in the parent, so
    states, transitions and the set of histories replayed are exactly those of bfs()."""
    import multiprocessing as mp

    (h0, key0, _), = replay_chunk([()])
    seen = {key0: ()}
    frontier = [()]
    transitions = 0
    maxd = 0
    samples = []
    fix = False
    with mp.get_context("fork").Pool(workers) as pool:
        for d in range(1, depth + 1):
            todo = [hist + (ev,) for hist in frontier for ev in events]
            n = max(1, min(len(todo), workers * 3))
            chunks = [todo[i::n] for i in range(n)]
            got = {}
            for rs in pool.map(replay_chunk, [c for c in chunks if c]):
                for h2, key, fails in rs:
                    got[tuple(h2)] = (key, fails)
            new = []
            for h2 in todo:  # parent-side processing in the sequential order
                key, fails = got[h2]
                transitions += 1
                for sig, case, detail in fails:
                    tally.fail(sig, case, detail)
                if len(samples) < 3 and d == min(depth, 2):
                    samples.append([list(map(str, h2)), str(key)[:300]])
                if key not in seen:
                    seen[key] = h2
                    new.append(h2)
                    maxd = d
            frontier = new
            if not frontier:
                fix = True
                break
    return {"states": len(seen), "transitions": transitions, "max_depth": maxd, "fixpoint": fix, "samples": samples, "frontier_left": len(frontier)}
