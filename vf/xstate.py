"""E2: explicit-state explorer over real objects.  A state is the event history that reaches it; it is rebuilt by
replaying the history on fresh real objects.  De-duplication by a canonical key of the property-relevant state."""


def bfs(system, events, depth, tally, on_transition=None):
    """system.replay(history) -> (key, failures_for_last_event:list[(sig, case, detail)])
    Returns dict(states, transitions, max_depth, fixpoint, samples)."""
    key0, _ = system.replay(())
    seen = {key0: ()}
    frontier = [()]
    transitions = 0
    maxd = 0
    samples = []
    fix = False
    for d in range(1, depth + 1):
        new = []
        for hist in frontier:
            for ev in events:
                h2 = hist + (ev,)
                key, fails = system.replay(h2)
                transitions += 1
                for sig, case, detail in fails:
                    tally.fail(sig, case, detail)
                if len(samples) < 3 and d == min(depth, 2):
                    samples.append([list(map(str, h2)), str(key)[:300]])
                if key not in seen:
                    seen[key] = h2
                    new.append(h2)
                    maxd = d
        frontier = new
        if not frontier:
            fix = True
            break
    return {"states": len(seen), "transitions": transitions, "max_depth": maxd, "fixpoint": fix, "samples": samples, "frontier_left": len(frontier)}
