"""E7: the model universe - baselines (MIN, MAXS, MAXD), value alphabets and single-dimension deviations for every
concrete aggregate class.  Terms are (CLASSNAME, {attr: value|term}, [member values|terms]); instances are built
only through the public constructors.
"""
import datetime
import decimal

from vf import ref_schema as S

D = decimal.Decimal
UTC = datetime.timezone.utc


def tz(minutes):
    return datetime.timezone(datetime.timedelta(minutes=minutes))


class SeasonTZ(datetime.tzinfo):
    """a zone whose offset depends on the date (as zoneinfo / pytz / dateutil zones do): `winter` minutes from October
    to March, `summer` minutes from April to September.  ONE shared object per zone, as applications have."""

    def __init__(self, winter, summer, names):
        self.w, self.s, self.names = winter, summer, names

    def _summer(self, dt):
        return dt is not None and 4 <= dt.month <= 9

    def utcoffset(self, dt):
        return datetime.timedelta(minutes=self.s if self._summer(dt) else self.w)

    def tzname(self, dt):
        return self.names[1 if self._summer(dt) else 0]

    def dst(self, dt):
        return datetime.timedelta(minutes=(self.s - self.w) if self._summer(dt) else 0)

    def __reduce__(self):
        return (SeasonTZ, (self.w, self.s, self.names))

    def __repr__(self):
        return f"SeasonTZ({self.w}, {self.s}, {self.names})"


EASTERN = SeasonTZ(-300, -240, ("EST", "EDT"))

DT_ALPHA = [
    datetime.datetime(2024, 2, 29, 12, 30, 15, 0, tzinfo=UTC),
    datetime.datetime(2023, 1, 1, 0, 0, 0, 0, tzinfo=UTC),
    datetime.datetime(1999, 12, 31, 23, 59, 59, 999000, tzinfo=UTC),
    datetime.datetime(2024, 3, 1, 1, 0, 0, 1000, tzinfo=tz(-720)),
    datetime.datetime(2023, 12, 31, 23, 45, 0, 500000, tzinfo=tz(-30)),
    datetime.datetime(2024, 1, 1, 0, 15, 0, 0, tzinfo=tz(330)),
    datetime.datetime(2100, 2, 28, 23, 59, 59, 0, tzinfo=tz(840)),
    datetime.datetime(2024, 6, 30, 20, 15, 0, 0, tzinfo=tz(-210)),
    datetime.datetime(2024, 1, 15, 9, 0, 0, 0, tzinfo=EASTERN),
    datetime.datetime(2024, 7, 15, 9, 0, 0, 0, tzinfo=EASTERN),
]
TM_ALPHA = [
    datetime.time(12, 30, 15, 0, tzinfo=UTC),
    datetime.time(0, 0, 0, 0, tzinfo=UTC),
    datetime.time(23, 59, 59, 999000, tzinfo=UTC),
    datetime.time(1, 0, 0, 1000, tzinfo=tz(-720)),
    datetime.time(23, 45, 0, 500000, tzinfo=tz(-30)),
    datetime.time(0, 15, 0, 0, tzinfo=tz(330)),
    datetime.time(23, 59, 59, 0, tzinfo=tz(840)),
    datetime.time(20, 15, 0, 0, tzinfo=tz(-210)),
    datetime.time(0, 30, 0, 0, tzinfo=tz(570)),
]
# N.B. the constructor decodes entities in str input: "&amp;amp;" is how an instance comes to HOLD the text "&amp;"
STR_BASE = ["a", None, "A&B<c>\"'", "é€ ü", "a  b", "0", "x>y]]>z", "&amp;", "&amp;amp;", "a&amp;lt;b"]


def _cut(s, n):
    if n is not None:
        s = s[:n]
    s = s.strip()
    return s or "a"


_alpha_cache = {}


def alphabet(c, rot=0):
    """value alphabet of an element child (first entry = default)."""
    key = (c.typ, c.params if not isinstance(c.params, list) else tuple(c.params))
    if key in _alpha_cache:
        vals = _alpha_cache[key]
    else:
        vals = _alphabet(c)
        _alpha_cache[key] = vals
    return vals


def _alphabet(c):
    t = c.typ
    if t == "Bool":
        return [True, False]
    if t in ("String", "NagString"):
        n = c.params
        out = []
        for s in STR_BASE:
            if s is None:
                s = "x" * (n if n is not None else 40)
            v = _cut(s, n)
            if v not in out:
                out.append(v)
        return out
    if t == "OneOf":
        toks = list(c.params)
        out = [toks[0]]
        if toks[-1] not in out:
            out.append(toks[-1])
        return out
    if t == "Integer":
        n = c.params
        top = 10**n - 1 if n is not None else 2**40
        out = []
        for v in (7, 0, -1, top, 1):
            if n is not None and abs(v) >= 10**n:
                continue
            if v not in out:
                out.append(v)
        return out
    if t == "Decimal":
        sc = c.params
        base = [D("1.50"), D("0"), D("-0.01"), D("1234567.891"), D("100"), D("0.00")]
        out = []
        for v in base:
            if sc is not None:
                v = v.quantize(D(1).scaleb(-sc))
            if not any(v.as_tuple() == o.as_tuple() for o in out):
                out.append(v)
        return out
    if t == "DateTime":
        return list(DT_ALPHA)
    if t == "Time":
        return list(TM_ALPHA)
    raise ValueError(f"no alphabet for {c!r}")


# ---------------------------------------------------------------------------------------------
# class-specific hints: rules hand-written in validate_args (not declared data), as documented there
# ---------------------------------------------------------------------------------------------
HINTS = {
    "SONRQ": {"min_extra": ["userid", "userpass"], "max_exclude": ["userkey"]},
    "OFX": {"max_filter": lambda name: name.endswith("rqv1")},
    "CONTRIBSECURITY": {"min_extra": ["pretaxcontribpct"], "max_filter": lambda name: name == "secid" or name.endswith("pct")},
    "CONTRIBINFO": {"min_list": "contribsecurity"},
    "MFACHALLENGERS": {"min_list": "mfachallenge"},
    "MSGSETLIST": {"min_list": "signonmsgset"},
    "MSGSETCORE": {"min_list": "language"},
    "TAX1099MSGSRQV1": {"min_list": "tax1099trnrq"},
    "TAX1099MSGSRSV1": {"min_list": "tax1099trnrs"},
    "TAX1099MSGSETV1": {"min_list": "taxyearsupported"},
    "TAX1099RS": {"min_list": "tax1099misc_v100"},
    "ACCTINFO": {"min_list": "bankacctinfo", "one_per_kind": True},
    "EXTDPMT": {"min_extra": ["extdpmtdsc"]},
}


def hint(cls):
    return HINTS.get(cls.__name__, {})


_min_cache = {}
_max_cache = {}


def default_value(c):
    return alphabet(c)[0]


def member_default(c, i=0, depth="MIN"):
    """i-th distinguishable member of repeated kind c"""
    if c.kind == "lelem":
        a = alphabet(c)
        return a[i % len(a)]
    t = MIN(c.target) if depth == "MIN" else MAXS(c.target)
    return vary(t, i) if i else t


def vary(term, i):
    """make a member distinguishable: first element (depth-first) with an alphabet of > 1 values gets value #i"""
    name, kw, members = term
    cls = cls_by_name(name)
    cm = S.child_map(cls)
    for k, v in kw.items():
        c = cm[k]
        if c.kind == "elem":
            a = alphabet(c)
            if len(a) > 1:
                kw2 = dict(kw)
                kw2[k] = a[i % len(a)]
                return (name, kw2, members)
    for k, v in kw.items():
        if S._isterm(v):
            nv = vary(v, i)
            if nv is not v:
                kw2 = dict(kw)
                kw2[k] = nv
                return (name, kw2, members)
    if members:
        m0 = members[0]
        if S._isterm(m0):
            nm = vary(m0, i)
            if nm is not m0:
                return (name, kw, [nm] + list(members[1:]))
    return term


_byname = None


def cls_by_name(name):
    global _byname
    if _byname is None:
        import ofxtools.models as M

        _byname = {}
    if name not in _byname:
        import ofxtools.models as M

        _byname[name] = getattr(M, name)
    return _byname[name]


def MIN(cls):
    if cls in _min_cache:
        return _min_cache[cls]
    h = hint(cls)
    kw = {}
    chs = S.children(cls)
    cm = {c.name: c for c in chs}
    opt, req = S.declared_groups(cls)
    for c in chs:
        if c.kind == "elem" and (c.required or c.name in h.get("min_extra", ())):
            kw[c.name] = default_value(c)
        elif c.kind == "sub" and (c.required or c.name in h.get("min_extra", ())):
            kw[c.name] = MIN(c.target)
    for g in req:
        if not any(m in kw for m in g):
            m = next((m for m in g if m in cm and cm[m].kind in ("elem", "sub")), None)
            if m is not None:
                kw[m] = default_value(cm[m]) if cm[m].kind == "elem" else MIN(cm[m].target)
    kw = {c.name: kw[c.name] for c in chs if c.name in kw}
    members = []
    if "min_list" in h:
        members = [member_default(cm[h["min_list"]], 0)]
    t = (cls.__name__, kw, members)
    _min_cache[cls] = t
    return t


def _MAX(cls, subdepth):
    h = hint(cls)
    chs = S.children(cls)
    cm = {c.name: c for c in chs}
    opt, req = S.declared_groups(cls)
    dropped = set(h.get("max_exclude", ()))
    for g in list(opt) + list(req):
        present = [m for m in g if m in cm and cm[m].kind in ("elem", "sub") and m not in dropped]
        # keep the member MIN chose (if any), else the first
        mn = MIN(cls)[1]
        keep = next((m for m in present if m in mn), present[0] if present else None)
        for m in present:
            if m != keep:
                dropped.add(m)
    flt = h.get("max_filter")
    kw = {}
    for c in chs:
        if c.name in dropped or (flt and not flt(c.name)):
            continue
        if c.kind == "elem":
            kw[c.name] = default_value(c)
        elif c.kind == "sub":
            kw[c.name] = MIN(c.target) if subdepth == 0 else _MAX(c.target, subdepth - 1)
    members = []
    for c in chs:
        if c.kind in ("lagg", "lelem"):
            members.append(member_default(c, 0, "MIN" if subdepth == 0 else "MAXS"))
    return (cls.__name__, kw, members)


def MAXS(cls):
    if cls not in _max_cache:
        _max_cache[cls] = _MAX(cls, 0)
    return _max_cache[cls]


def MAXD(cls):
    return _MAX(cls, 1)


def build(term):
    """term -> library instance through the public constructor"""
    name, kw, members = term
    cls = cls_by_name(name)
    kwargs = {k: (build(v) if S._isterm(v) else v) for k, v in kw.items()}
    args = [build(m) if S._isterm(m) else m for m in members]
    return cls(*args, **kwargs)


def term_size(term):
    name, kw, members = term
    n = 1
    for v in kw.values():
        n += term_size(v) if S._isterm(v) else 1
    for m in members:
        n += term_size(m) if S._isterm(m) else 1
    return n


# ---------------------------------------------------------------------------------------------
# deviations of a baseline, one dimension each (root level)
# ---------------------------------------------------------------------------------------------
def dimensions(cls, base, sub_states=("MIN",)):
    """-> list of dimensions; each dimension = (label, [state0(baseline), state1, ...]); a state is a function
    term -> term (edit).  State 0 is the identity."""
    name, kw0, members0 = base
    chs = S.children(cls)
    cm = {c.name: c for c in chs}
    opt, req = S.declared_groups(cls)
    ingroup = {}
    for g in list(opt) + list(req):
        for m in g:
            ingroup.setdefault(m, g)
    dims = []

    def setkw(k, v):
        def f(term):
            n, kw, mem = term
            kw2 = dict(kw)
            if v is None:
                kw2.pop(k, None)
            else:
                kw2[k] = v
            return (n, {c.name: kw2[c.name] for c in chs if c.name in kw2}, mem)

        return f

    for c in chs:
        if c.kind == "elem":
            states = []
            cur = kw0.get(c.name)
            for v in alphabet(c):
                if cur is not None and S.norm_value(v) == S.norm_value(cur) and type(v) is type(cur):
                    continue
                if cur is None and c.name in ingroup:
                    continue  # presence of group members is the group dimension's business
                states.append((f"{c.name}={v!r}", setkw(c.name, v)))
            if cur is not None and not c.required and c.name not in ingroup:
                states.append((f"-{c.name}", setkw(c.name, None)))
            if states:
                dims.append((c.name, states))
        elif c.kind == "sub":
            states = []
            cur = kw0.get(c.name)
            if cur is None and c.name not in ingroup:
                states.append((f"+{c.name}", setkw(c.name, MIN(c.target))))
            if cur is not None and not c.required and c.name not in ingroup:
                states.append((f"-{c.name}", setkw(c.name, None)))
            if "MAXS" in sub_states:
                mx = MAXS(c.target)
                if cur is None or S.term_key(mx) != S.term_key(cur):
                    if not (cur is None and c.name in ingroup):
                        states.append((f"{c.name}:=MAXS", setkw(c.name, mx)))
            if states:
                dims.append((c.name, states))
    # group dimensions: which member is present
    seen = set()
    for g in list(opt) + list(req):
        if g in seen:
            continue
        seen.add(g)
        members = [m for m in g if m in cm and cm[m].kind in ("elem", "sub")]
        cur = [m for m in members if m in kw0]
        states = []
        for m in members:
            if m in cur:
                continue

            def sw(term, m=m, members=members):
                n, kw, mem = term
                kw2 = {k: v for k, v in kw.items() if k not in members}
                kw2[m] = default_value(cm[m]) if cm[m].kind == "elem" else MIN(cm[m].target)
                return (n, {c.name: kw2[c.name] for c in chs if c.name in kw2}, mem)

            states.append((f"group{list(g)}->{m}", sw))
        if g in opt and cur:

            def none(term, members=members):
                n, kw, mem = term
                return (n, {k: v for k, v in kw.items() if k not in members}, mem)

            states.append((f"group{list(g)}->none", none))
        if states:
            dims.append(("group:" + ",".join(g), states))
    # repeated kinds: number of members
    lkinds = [c for c in chs if c.kind in ("lagg", "lelem")]

    def kind_of(m):
        if S._isterm(m):
            for c in lkinds:
                if c.kind == "lagg" and c.target.__name__ == m[0]:
                    return c.name
        else:
            for c in lkinds:
                if c.kind == "lelem":
                    return c.name
        return None

    for c in lkinds:
        cur = sum(1 for m in members0 if kind_of(m) == c.name)
        states = []
        for cnt in (0, 1, 2, 3):
            if cnt == cur:
                continue

            def setcount(term, c=c, cnt=cnt):
                n, kw, mem = term
                out = []
                placed = False
                for m in mem:
                    if kind_of(m) == c.name:
                        if not placed:
                            out += [member_default(c, i) for i in range(cnt)]
                            placed = True
                    else:
                        out.append(m)
                if not placed:
                    # insert in declaration order
                    order = [k.name for k in lkinds]
                    idx = len(out)
                    for j, m in enumerate(out):
                        if order.index(kind_of(m)) > order.index(c.name):
                            idx = j
                            break
                    out[idx:idx] = [member_default(c, i) for i in range(cnt)]
                return (n, kw, out)

            states.append((f"#{c.name}={cnt}", setcount))
        dims.append(("#" + c.name, states))
    if len(lkinds) >= 2 or (len(lkinds) == 1 and len(members0) >= 2):

        def rev(term):
            n, kw, mem = term
            return (n, kw, list(reversed(mem)))

        def rot(term):
            n, kw, mem = term
            return (n, kw, list(mem[1:]) + list(mem[:1]))

        dims.append(("order", [("order=reversed", rev), ("order=rotated", rot)]))
    return dims


def enumerate_deviations(cls, base, k, sub_states=("MIN",)):
    """yield (labels tuple, term) for every term within <= k deviations of base (k in {0,1,2})"""
    import itertools

    dims = dimensions(cls, base, sub_states)
    yield (), base
    if k >= 1:
        for label, states in dims:
            for slabel, f in states:
                yield (slabel,), f(base)
    if k >= 2:
        for (l1, s1), (l2, s2) in itertools.combinations(dims, 2):
            # the order dimension only makes sense after the counts: apply it last
            for a, fa in s1:
                for b, fb in s2:
                    if l1 == "order":
                        yield (b, a), fa(fb(base))
                    else:
                        yield (a, b), fb(fa(base))


def min_with(cls, c, value=None):
    """smallest valid term of cls that contains child c (element / sub-aggregate: present; repeated kind: one member),
    honouring groups and the hand-written validate_args rules of the hint table"""
    n = cls.__name__
    name, kw, members = MIN(cls)
    chs = S.children(cls)
    cm = {x.name: x for x in chs}
    opt, req = S.declared_groups(cls)
    if c.kind in ("elem", "sub"):
        val = value if value is not None else (default_value(c) if c.kind == "elem" else MIN(c.target))
        kw2 = dict(kw)
        for g in list(opt) + list(req):
            if c.name in g:
                for m in g:
                    if m != c.name:
                        kw2.pop(m, None)
        kw2[c.name] = val
        if n == "OFX":
            suffix = c.name[-4:]
            kw2 = {k: v for k, v in kw2.items() if k.endswith(suffix)}
            son = "signonmsgsrqv1" if suffix == "rqv1" else "signonmsgsrsv1"
            kw2.setdefault(son, MIN(cm[son].target))
        if n == "CONTRIBSECURITY" and c.name != "secid":
            kw2 = {k: v for k, v in kw2.items() if k == "secid" or k.endswith(c.name[-3:])}
        if n == "SONRQ" and c.name == "userkey":
            kw2.pop("userid", None)
            kw2.pop("userpass", None)
        if n == "TAX1099R_V100" and c.name in ("grossdist", "taxamt", "fedtaxwh"):
            kw2["irasepsimp"] = True
        if n == "TAX1099MISC_V100" and c.name == "sttaxwh":
            kw2["payerstate"] = "a"
        if n == "EXTDPAYEE" and c.name == "payeeid":
            kw2["idscope"] = "GLOBAL"
            kw2["name"] = "a"
        return (name, {x.name: kw2[x.name] for x in chs if x.name in kw2}, list(members))
    mem = value if value is not None else member_default(c, 0)
    members2 = list(members)
    same = [i for i, m in enumerate(members2) if (S._isterm(m) and S._isterm(mem) and m[0] == mem[0]) or (not S._isterm(m) and not S._isterm(mem))]
    if same:
        members2[same[0]] = mem
    else:
        members2.append(mem)
    if n == "ACCTINFO":
        members2 = [mem]
    return (name, kw, members2)


def MAXL(cls):
    """MAXS with two distinguishable members of the last and of the first declared repeated kind, in that order (a valid
    instance: repeated children may come in any order among themselves).  None for classes without repeated kinds."""
    name, kw, members = MAXS(cls)
    lk = [c for c in S.children(cls) if c.kind in ("lagg", "lelem")]
    if not lk:
        return None
    n = 1 if hint(cls).get("one_per_kind") else 2
    mem = []
    kinds = [lk[-1]] + ([lk[0]] if len(lk) > 1 else [])  # last declared kind first, then the first declared kind
    for c in kinds:
        mem += [member_default(c, i) for i in range(n)]
    return (name, kw, mem)
