"""Reference implementation of the OFX data-type rules (OFX spec 3.2.8), written from the prose.

No `datetime`, no `re`: instants are integers (milliseconds / microseconds since 1970-01-01T00:00Z) computed with
a days-from-civil algorithm in integer arithmetic; decimals are (sign, digits, exponent) triples.
"""
import decimal as _decimal


class RefValueError(Exception):
    pass


# ---------------------------------------------------------------------------------------------
# calendar
# ---------------------------------------------------------------------------------------------
def is_leap(y):
    return (y % 4 == 0 and y % 100 != 0) or y % 400 == 0


def days_in_month(y, m):
    if m == 2:
        return 29 if is_leap(y) else 28
    return 30 if m in (4, 6, 9, 11) else 31


def days_from_civil(y, m, d):
    """days since 1970-01-01 (proleptic Gregorian), Howard Hinnant's algorithm"""
    y -= m <= 2
    era = (y if y >= 0 else y - 399) // 400
    yoe = y - era * 400
    doy = (153 * (m + (-3 if m > 2 else 9)) + 2) // 5 + d - 1
    doe = yoe * 365 + yoe // 4 - yoe // 100 + doy
    return era * 146097 + doe - 719468


def civil_from_days(z):
    z += 719468
    era = (z if z >= 0 else z - 146096) // 146097
    doe = z - era * 146097
    yoe = (doe - doe // 1460 + doe // 36524 - doe // 146096) // 365
    y = yoe + era * 400
    doy = doe - (365 * yoe + yoe // 4 - yoe // 100)
    mp = (5 * doy + 2) // 153
    d = doy - (153 * mp + 2) // 5 + 1
    m = mp + (3 if mp < 10 else -9)
    return (y + (m <= 2), m, d)


def _digits(s):
    return len(s) > 0 and all("0" <= c <= "9" for c in s)


def parse_offset(s):
    """text between '[' and ']' -> offset in minutes.  offset[:name]; offset = [sign]h[h][.mm]"""
    if ":" in s:
        off, _name = s.split(":", 1)
    else:
        off = s
    if off == "":
        raise RefValueError("empty offset")
    sign = 1
    if off[0] in "+-":
        sign = -1 if off[0] == "-" else 1
        off = off[1:]
    if "." in off:
        h, mm = off.split(".", 1)
        if not (_digits(mm) and len(mm) == 2):
            raise RefValueError("bad offset minutes")
    else:
        h, mm = off, "0"
    if not _digits(h) or len(h) > 2:
        raise RefValueError("bad offset hours")
    minutes = int(mm)
    if minutes > 59:
        raise RefValueError("offset minutes > 59")
    total = sign * (int(h) * 60 + minutes)
    if not (-12 * 60 <= total <= 14 * 60):
        raise RefValueError("offset out of range")
    return total


def _split_tail(rest):
    """rest after HHMMSS: '' | '.XXX' | '.XXX[..]' | '[..]'  -> (ms, offset_minutes)"""
    ms = 0
    if rest.startswith("."):
        x = rest[1:4]
        if not (_digits(x) and len(x) == 3):
            raise RefValueError("bad milliseconds")
        ms = int(x)
        rest = rest[4:]
    off = 0
    if rest:
        if not (rest[0] == "[" and rest[-1] == "]"):
            raise RefValueError("trailing garbage")
        off = parse_offset(rest[1:-1])
    return ms, off


def _hms(s):
    if not (_digits(s) and len(s) == 6):
        raise RefValueError("bad HHMMSS")
    h, mi, sec = int(s[0:2]), int(s[2:4]), int(s[4:6])
    if h > 23 or mi > 59 or sec > 59:
        raise RefValueError("time field out of range")
    return h, mi, sec


def read_datetime(text):
    """-> instant in ms since the epoch (UTC)"""
    if len(text) < 8 or not _digits(text[:8]):
        raise RefValueError("bad date")
    y, m, d = int(text[0:4]), int(text[4:6]), int(text[6:8])
    if not (1 <= m <= 12) or not (1 <= d <= days_in_month(y, m)):
        raise RefValueError("date field out of range")
    rest = text[8:]
    h = mi = sec = ms = off = 0
    if rest:
        if len(rest) < 6:
            raise RefValueError("bad length")
        h, mi, sec = _hms(rest[:6])
        ms, off = _split_tail(rest[6:])
    days = days_from_civil(y, m, d)
    local = ((days * 24 + h) * 60 + mi) * 60 + sec
    return (local - off * 60) * 1000 + ms


def read_time(text):
    """-> ms since midnight UTC, modulo 24 h"""
    if len(text) < 6:
        raise RefValueError("bad length")
    h, mi, sec = _hms(text[:6])
    ms, off = _split_tail(text[6:])
    local = (h * 60 + mi) * 60 + sec
    return ((local - off * 60) * 1000 + ms) % 86400000


def dt_fields_to_us(y, m, d, h, mi, s, us, offset_minutes):
    days = days_from_civil(y, m, d)
    local = ((days * 24 + h) * 60 + mi) * 60 + s
    return (local - offset_minutes * 60) * 1000000 + us


def pydt_to_us(dt):
    """python aware datetime -> integer microseconds since the epoch, using only its fields"""
    off = dt.utcoffset()
    offus = (off.days * 86400 + off.seconds) * 1000000 + off.microseconds
    days = days_from_civil(dt.year, dt.month, dt.day)
    local = ((days * 24 + dt.hour) * 60 + dt.minute) * 60 + dt.second
    return local * 1000000 + dt.microsecond - offus


def pytime_to_us(t):
    off = t.utcoffset()
    offus = (off.days * 86400 + off.seconds) * 1000000 + off.microseconds
    local = (t.hour * 60 + t.minute) * 60 + t.second
    return (local * 1000000 + t.microsecond - offus) % 86400000000


def written_datetime_ok(text, time_only=False):
    """lexical rule for what the library writes: [YYYYMMDD]HHMMSS.XXX[+-h[.mm][:name]]"""
    body = text if time_only else text[8:]
    if not time_only and not (_digits(text[:8]) and len(text) >= 8):
        return False
    if len(body) < 10 or not _digits(body[:6]) or body[6] != "." or not _digits(body[7:10]):
        return False
    rest = body[10:]
    if not (rest.startswith("[") and rest.endswith("]")):
        return False
    off = rest[1:-1].split(":", 1)[0]
    if not off or off[0] not in "+-":
        return False
    off = off[1:]
    if "." in off:
        h, mm = off.split(".", 1)
        if not (_digits(mm) and len(mm) == 2):
            return False
    else:
        h = off
    return _digits(h) and len(h) <= 2


# ---------------------------------------------------------------------------------------------
# other scalar types
# ---------------------------------------------------------------------------------------------
def read_bool(text):
    if text == "Y":
        return True
    if text == "N":
        return False
    raise RefValueError("not Y/N")


def read_int(text):
    s = text
    if s[:1] in "+-":
        s = s[1:]
    if not _digits(s):
        raise RefValueError("not an integer")
    return int(text)


def decimal_lexical_ok(text):
    """[+-]? ( d+ ([.,] d*)? | [.,] d+ )"""
    s = text
    if s[:1] in "+-":
        s = s[1:]
    seps = [i for i, c in enumerate(s) if c in ".,"]
    if len(seps) > 1:
        return False
    if seps:
        a, b = s[: seps[0]], s[seps[0] + 1 :]
        if a == "" and b == "":
            return False
        return (a == "" or _digits(a)) and (b == "" or _digits(b))
    return _digits(s)


def read_decimal(text):
    """-> (sign, int digits value, exponent) canonical triple; e.g. '1,50' -> (0, 150, -2)"""
    if not decimal_lexical_ok(text):
        raise RefValueError("not a decimal")
    s = text
    sign = 0
    if s[:1] in "+-":
        sign = 1 if s[0] == "-" else 0
        s = s[1:]
    s = s.replace(",", ".")
    if "." in s:
        a, b = s.split(".")
    else:
        a, b = s, ""
    return (sign, int((a + b) or "0"), -len(b))


def pydecimal_triple(d):
    """decimal.Decimal -> (sign, digits value, exponent)"""
    t = d.as_tuple()
    if not isinstance(t.exponent, int):
        return (t.sign, None, t.exponent)
    v = 0
    for dg in t.digits:
        v = v * 10 + dg
    return (t.sign, v, t.exponent)


def triple_value_equal(a, b):
    """numerically equal (ignoring exponent)"""
    sa, va, ea = a
    sb, vb, eb = b
    e = min(ea, eb)
    xa = va * 10 ** (ea - e) * (-1 if sa else 1)
    xb = vb * 10 ** (eb - e) * (-1 if sb else 1)
    return xa == xb


def quantize_triple(t, scale):
    """round-half-even to `scale` decimal places (the decimal module's default context rounding)"""
    s, v, e = t
    if e == -scale:
        return t
    if e > -scale:
        return (s, v * 10 ** (e + scale), -scale)
    drop = -scale - e
    q, r = divmod(v, 10**drop)
    half = 10**drop // 2
    if r > half or (r == half and q % 2 == 1):
        q += 1
    return (s, q, -scale)


ENTITIES = [("&amp;", "&"), ("&lt;", "<"), ("&gt;", ">"), ("&nbsp;", " "), ("&apos;", "'"), ("&quot;", '"')]


def unescape(text):
    """single-pass entity decoding: each entity is replaced once, the result is not rescanned"""
    out = []
    i = 0
    n = len(text)
    while i < n:
        if text[i] == "&":
            for ent, ch in ENTITIES:
                if text.startswith(ent, i):
                    out.append(ch)
                    i += len(ent)
                    break
            else:
                out.append("&")
                i += 1
        else:
            out.append(text[i])
            i += 1
    return "".join(out)


def escape(text):
    return text.replace("&", "&amp;").replace("<", "&lt;").replace(">", "&gt;")


def selfcheck():
    assert days_from_civil(1970, 1, 1) == 0
    assert days_from_civil(2000, 3, 1) == 11017
    for z in (-25567, 0, 11016, 11017, 47540, 84305):
        assert days_from_civil(*civil_from_days(z)) == z
    assert read_datetime("19700101") == 0
    assert read_datetime("19700101000000.001[0:GMT]") == 1
    assert read_datetime("19700101010000[+1]") == 0
    assert read_datetime("19700101000000[-0.30]") == 30 * 60000
    assert read_datetime("19691231193000.000[-5.30:Any Name]") == 3600 * 1000
    assert read_time("233000[-0.30]") == 0
    assert read_decimal("1,50") == (0, 150, -2)
    assert read_decimal("-.5") == (1, 5, -1)
    assert read_decimal("5.") == (0, 5, 0)
    assert unescape("a&amp;lt;b") == "a&lt;b"
    assert quantize_triple((0, 125, -2), 1) == (0, 12, -1)
    assert quantize_triple((0, 135, -2), 1) == (0, 14, -1)
    for bad in ("1970010", "19701301", "19700230", "19700101240000", "19700101006000", "19700101000000.00", "1970010100000", "19700101000000.000[+15]", "19700101000000.000[-12.30]"):
        try:
            read_datetime(bad)
        except RefValueError:
            continue
        raise AssertionError("ref_types accepted " + bad)


# ---------------------------------------------------------------------------------------------
# writers (reference lexical forms for python values; used to build documents independently of the library)
# ---------------------------------------------------------------------------------------------
def fmt_offset(minutes, name=None):
    sign = "-" if minutes < 0 else "+"
    h, m = divmod(abs(minutes), 60)
    s = f"{sign}{h}"
    if m:
        s += f".{m:02d}"
    if name:
        s += ":" + name
    return "[" + s + "]"


def write_datetime_us(us_utc, offset_minutes=0, name=None):
    """instant (integer microseconds since the epoch, UTC) -> 'YYYYMMDDHHMMSS.XXX[off]' in the given zone, truncating to ms
    (callers pass ms-aligned instants)"""
    ms = us_utc // 1000 + offset_minutes * 60000
    days, rem = divmod(ms, 86400000)
    y, mo, d = civil_from_days(days)
    h, rem = divmod(rem, 3600000)
    mi, rem = divmod(rem, 60000)
    s, x = divmod(rem, 1000)
    return f"{y:04d}{mo:02d}{d:02d}{h:02d}{mi:02d}{s:02d}.{x:03d}" + fmt_offset(offset_minutes, name)


def write_time_us(us_utc, offset_minutes=0, name=None):
    ms = (us_utc // 1000 + offset_minutes * 60000) % 86400000
    h, rem = divmod(ms, 3600000)
    mi, rem = divmod(rem, 60000)
    s, x = divmod(rem, 1000)
    return f"{h:02d}{mi:02d}{s:02d}.{x:03d}" + fmt_offset(offset_minutes, name)


def write_value(typ, v):
    """python value -> wire text (escaped) for a child of converter type `typ`"""
    import datetime as _dt

    if typ == "Bool":
        return "Y" if v else "N"
    if typ == "Integer":
        return str(int(v))
    if typ == "Decimal":
        s, val, e = pydecimal_triple(v)
        digs = str(val)
        if e < 0:
            digs = digs.rjust(-e + 1, "0")
            txt = digs[:e] + "." + digs[e:]
        else:
            txt = digs + "0" * e
        return ("-" if s else "") + txt
    if typ in ("String", "NagString", "OneOf"):
        return escape(str(v))
    if typ == "DateTime":
        off = v.utcoffset()
        offm = (off.days * 86400 + off.seconds) // 60
        return write_datetime_us(pydt_to_us(v), offm)
    if typ == "Time":
        off = v.utcoffset()
        offm = (off.days * 86400 + off.seconds) // 60
        return write_time_us(pytime_to_us(v), offm)
    raise ValueError(typ)


def read_value(typ, params, text):
    """wire text -> comparable key (same shape as ref_schema.norm_value) per the OFX type rules"""
    if typ == "Bool":
        return ("bool", read_bool(text))
    if typ == "Integer":
        return ("int", read_int(text))
    if typ == "Decimal":
        t = read_decimal(text)
        if params is not None:
            t = quantize_triple(t, params)
        return ("dec",) + tuple(t)
    if typ in ("String", "NagString"):
        return ("str", unescape(text))
    if typ == "OneOf":
        return ("str", text) if isinstance(text, str) else ("other", text)
    if typ == "DateTime":
        return ("dt", read_datetime(text))
    if typ == "Time":
        return ("tm", read_time(text))
    raise ValueError(typ)
