"""Shared plumbing: tally of failures, harness errors, process pool, deviation enumerator (E1)."""
import itertools
import json
import multiprocessing as mp
import os
import sys
import time
import traceback


class HarnessError(Exception):
    """A self-check of the machinery failed: no verdict about the property (exit 2)."""


class Tally:
    """Per-signature aggregation of failing cases + coverage counters.

    A *signature* is the documented, deterministic key of a failure (see DESIGN §4); the first case per
    signature is kept whole as the replay artefact, others are only counted."""

    def __init__(self):
        self.fails = {}  # sig -> [count, case, detail]
        self.counts = {}  # free counters
        self.samples = []
        self.outcomes = set()

    def fail(self, sig, case, detail=""):
        ent = self.fails.get(sig)
        if ent is None:
            self.fails[sig] = [1, case, str(detail)[:2000]]
        else:
            ent[0] += 1

    def count(self, key, n=1):
        self.counts[key] = self.counts.get(key, 0) + n

    def outcome(self, o):
        self.outcomes.add(o)

    def sample(self, s, cap=4):
        if len(self.samples) < cap:
            self.samples.append(s)

    def merge(self, other):
        for sig, (n, case, detail) in other.fails.items():
            ent = self.fails.get(sig)
            if ent is None:
                self.fails[sig] = [n, case, detail]
            else:
                ent[0] += n
        for k, v in other.counts.items():
            if k.endswith("_max"):
                self.counts[k] = max(self.counts.get(k, 0), v)
            else:
                self.counts[k] = self.counts.get(k, 0) + v
        for s in other.samples:
            self.sample(s, cap=8)
        self.outcomes |= other.outcomes
        return self


class Ctx:
    def __init__(self, pid, tier, seed, tmproot, workers):
        self.pid = pid
        self.tier = tier
        self.seed = seed
        self.tmproot = tmproot
        self.workers = workers
        self.quick = tier == "quick"
        self.thorough = tier == "thorough"

    def pmap(self, fn, items, chunk=None):
        """Run fn(chunk_of_items) -> Tally over a fork pool; merge.  Deterministic sharding."""
        items = list(items)
        total = Tally()
        if not items:
            return total
        nw = min(self.workers, len(items))
        if nw <= 1:
            r = _guard(fn, self.pid)(items)
            if isinstance(r, _WorkerCrash):
                raise HarnessError("worker crashed:\n" + r.tb)
            return total.merge(r)
        if chunk is None:
            chunk = max(1, len(items) // (nw * 4))
        chunks = [items[i : i + chunk] for i in range(0, len(items), chunk)]
        with mp.get_context("fork").Pool(nw) as pool:
            for t in pool.imap_unordered(_guard(fn, self.pid), chunks):
                if isinstance(t, _WorkerCrash):
                    raise HarnessError("worker crashed:\n" + t.tb)
                total.merge(t)
        return total


class _WorkerCrash:
    def __init__(self, tb):
        self.tb = tb


def library_exception_tally(pid, exc):
    """An exception that escaped a check's worker.  If it was RAISED INSIDE THE LIBRARY under test (innermost frame in a
    file under $VERIF_REPO) while the harness was doing something that works on the pinned tree (building a valid
    baseline, converting a clean document, ...), that is a failure of valid use and is reported as a violation of the
    property being checked, keyed by exception type and raising function; anything else is a harness crash."""
    repo = os.path.realpath(os.environ.get("VERIF_REPO", "/repo")) + os.sep
    verif = os.path.dirname(os.path.dirname(os.path.abspath(__file__))) + os.sep
    tb = exc.__traceback__
    last = None  # the innermost frame that belongs to the library or to the harness (frames of the standard library
    # reached from there - typing, copy, re ... - are attributed to whoever called them)
    while tb is not None:
        f = os.path.realpath(tb.tb_frame.f_code.co_filename)
        if f.startswith(repo) or f.startswith(verif):
            last = tb
        tb = tb.tb_next
    if last is None:
        return None
    fn = os.path.realpath(last.tb_frame.f_code.co_filename)
    if not fn.startswith(repo) or isinstance(exc, (HarnessError, KeyboardInterrupt, MemoryError)):
        return None
    t = Tally()
    where = f"{os.path.relpath(fn, repo)}:{last.tb_frame.f_code.co_name}"
    t.fail(f"{pid}|valid-use-raises|{type(exc).__name__}|{where}", {"traceback": traceback.format_exc()[-1500:]}, f"{type(exc).__name__}: {str(exc)[:200]} (raised in {where})")
    return t


class _guard:
    def __init__(self, fn, pid="C??"):
        self.fn = fn
        self.pid = pid

    def __call__(self, chunk):
        try:
            return self.fn(chunk)
        except BaseException as e:
            t = library_exception_tally(self.pid, e)
            if t is not None:
                return t
            return _WorkerCrash(traceback.format_exc())


# ---------------------------------------------------------------------------------------------
# E1: deviation-bounded product enumerator
# ---------------------------------------------------------------------------------------------
def deviations(space, k):
    """space: list of lists; space[i][0] is the default of dimension i, the rest alternatives ordered
    simplest first.  Yields tuples of *indices* (one per dimension): the default point and every point
    differing from it in at most k dimensions.  k=None: full product."""
    n = len(space)
    if k is None:
        yield from itertools.product(*[range(len(d)) for d in space])
        return
    base = [0] * n
    yield tuple(base)
    for r in range(1, min(k, n) + 1):
        for dims in itertools.combinations(range(n), r):
            alts = [range(1, len(space[d])) for d in dims]
            if any(len(a) == 0 for a in alts):
                continue
            for choice in itertools.product(*alts):
                p = list(base)
                for d, c in zip(dims, choice):
                    p[d] = c
                yield tuple(p)


def count_deviations(space, k):
    return sum(1 for _ in deviations(space, k))


def jsonable(x):
    """Best-effort conversion of a case to something json.dump accepts (replay files)."""
    import datetime
    import decimal

    if isinstance(x, (str, int, float, bool)) or x is None:
        return x
    if isinstance(x, bytes):
        return {"__bytes__": x.decode("latin-1")}
    if isinstance(x, decimal.Decimal):
        return {"__decimal__": str(x)}
    if isinstance(x, datetime.datetime):
        return {"__datetime__": x.isoformat()}
    if isinstance(x, datetime.time):
        return {"__time__": x.isoformat()}
    if isinstance(x, datetime.timedelta):
        return {"__timedelta_s__": x.total_seconds()}
    if isinstance(x, dict):
        return {str(k): jsonable(v) for k, v in x.items()}
    if isinstance(x, (list, tuple, set, frozenset)):
        return [jsonable(v) for v in x]
    return repr(x)


def unjson(x):
    import datetime
    import decimal

    if isinstance(x, dict):
        if "__bytes__" in x:
            return x["__bytes__"].encode("latin-1")
        if "__decimal__" in x:
            return decimal.Decimal(x["__decimal__"])
        if "__datetime__" in x:
            return datetime.datetime.fromisoformat(x["__datetime__"])
        if "__time__" in x:
            return datetime.time.fromisoformat(x["__time__"])
        if "__timedelta_s__" in x:
            return datetime.timedelta(seconds=x["__timedelta_s__"])
        return {k: unjson(v) for k, v in x.items()}
    if isinstance(x, list):
        return [unjson(v) for v in x]
    return x


def private_xdg(tag=""):
    """Give this process its own XDG data/config/cache/HOME directories (under the run's temp root) and make
    ofxtools.config see them: the environment is set and, if ofxtools.config was already imported, it is re-imported
    (importlib.reload) so that its module-level directories are recomputed.  Idempotent per process."""
    import importlib
    import sys

    root = os.environ.get("VF_TMPROOT") or "/tmp"
    mine = os.path.join(root, f"p{os.getpid()}{tag}")
    if os.environ.get("VF_PRIVATE_XDG") == mine:
        return mine
    for var, sub in (("XDG_DATA_HOME", "data"), ("XDG_CONFIG_HOME", "config"), ("XDG_CACHE_HOME", "cache"), ("HOME", "home")):
        p = os.path.join(mine, sub)
        os.makedirs(p, exist_ok=True)
        os.environ[var] = p
    os.environ["VF_PRIVATE_XDG"] = mine
    if "ofxtools.config" in sys.modules:
        importlib.reload(sys.modules["ofxtools.config"])
    return mine


def in_fork(fn):
    """run fn() in a forked child and return its (picklable) result; a failure inside the child is a HarnessError"""
    import pickle

    r, w = os.pipe()
    pid = os.fork()
    if pid == 0:
        try:
            os.close(r)
            try:
                out = ("ok", fn())
            except BaseException as e:
                out = ("err", f"{type(e).__name__}: {e}")
            with os.fdopen(w, "wb") as f:
                pickle.dump(out, f)
        finally:
            os._exit(0)
    os.close(w)
    with os.fdopen(r, "rb") as f:
        data = f.read()
    os.waitpid(pid, 0)
    if not data:
        raise HarnessError("forked child died without a result")
    kind, val = pickle.loads(data)
    if kind == "err":
        raise HarnessError("forked child failed: " + val)
    return val


def touch_bases(cls):
    """read the introspection properties of every base class of a model class, root first - what dir()/documentation
    tools or a user looking at a base class do; what a class does must not depend on whether that happened before"""
    from ofxtools.models.base import Aggregate

    for base in reversed(cls.__mro__):
        if isinstance(base, type) and issubclass(base, Aggregate):
            for prop in ("spec", "spec_no_listaggregates", "elements", "subaggregates", "unsupported", "listaggregates", "listelements"):
                try:
                    getattr(base, prop)
                except Exception:
                    pass


def provoke_refusals(cls):
    """constructions and conversions of a model class that are refused (no arguments, an undeclared keyword, a foreign list
    member, an empty / unknown / duplicated element tree).  Outcomes are ignored: what the class does for valid input
    afterwards must not depend on these having been attempted."""
    import warnings
    import xml.etree.ElementTree as ET

    n = cls.__name__
    trees = [ET.Element(n), ET.fromstring(f"<{n}><NOSUCHTAG>1</NOSUCHTAG></{n}>"), ET.fromstring(f"<{n}><NOSUCHAGG><X>1</X></NOSUCHAGG><NOSUCHAGG><X>1</X></NOSUCHAGG></{n}>"), ET.Element("NOT" + n)]
    with warnings.catch_warnings():
        warnings.simplefilter("ignore")
        for attempt in (lambda: cls(), lambda: cls(no_such_keyword=1), lambda: cls(object()), lambda: cls("text"), lambda: cls(None)) + tuple((lambda e=e: cls.from_etree(e)) for e in trees):
            try:
                attempt()
            except Exception:
                pass


_DISTURBED = []


def disturb_process():
    """once per process, before a check's own cases: operations across the library that FAIL - unreadable and mis-nested
    files, documents that do not convert, headers that are refused, profile / statement / account requests against a
    server that answers with garbage, with an unconvertible profile, with an error status, or not at all.  Their outcomes
    are ignored; what valid input gives afterwards must not depend on them (C17 states this for every property)."""
    if _DISTURBED:
        return
    _DISTURBED.append(True)
    import datetime
    import io
    import urllib.error
    import warnings

    from vf import fakehttp as F

    private_xdg()
    from ofxtools.Client import OFXClient, StmtRq
    from ofxtools.Parser import OFXTree

    good = F.profile_response("T0", datetime.datetime(2021, 1, 1, tzinfo=datetime.timezone.utc), {"bank": "http://disturb.example/ofx"})
    bads = [b"", b"garbage", good[: len(good) // 2], good.replace(b"</SONRS>", b"</SONRQ>"), good.replace(b"<LANGUAGE>ENG", b"<LANGUAGE>KLINGON"), good.replace(b"<CODE>0", b"<CODE>zero"),
            good.replace(b"VERSION=\"203\"", b"VERSION=\"999\""), good.replace(b"<DTSERVER>", b"<DTSERVER>x"), b"OFXHEADER:100\r\nDATA:OFXSGML\r\nVERSION:102\r\nSECURITY:NONE\r\nENCODING:USASCII\r\nCHARSET:KOI8\r\n"]
    with warnings.catch_warnings():
        warnings.simplefilter("ignore")
        for b in bads:
            try:
                t = OFXTree()
                t.parse(io.BytesIO(b))
                t.convert()
            except Exception:
                pass
        from ofxtools.scripts import ofxget as og

        for b in bads[:6]:
            for fn in (og.extract_signoninfos, og.extract_acctinfos):
                try:
                    list(fn(io.BytesIO(b)))
                except Exception:
                    pass
        net = F.Net()
        net.install()
        try:
            answers = [lambda ex, b=b: F.ok(b) for b in bads[1:8]] + [lambda ex: F.ok(F.profile_response("T0", None, {}, status=2000))]

            def refuse(ex):
                raise urllib.error.URLError("connection refused (scripted)")

            for k, handler in enumerate(answers + [refuse]):
                net.handler = handler
                cl = OFXClient("http://disturb.example/ofx", org="DISTURB", fid=str(k), userid="u")
                for call in (lambda: cl.request_profile(), lambda: cl.request_statements("pw", StmtRq(acctid="1", accttype="CHECKING")),
                             lambda: cl.request_accounts("pw", datetime.datetime(2020, 1, 1, tzinfo=datetime.timezone.utc)), lambda: cl.request_profile(version=102, prettyprint=True, close_elements=False)):
                    try:
                        call().read()
                    except Exception:
                        pass
        finally:
            net.uninstall()


def disturb_class(cls):
    touch_bases(cls)
    provoke_refusals(cls)


def vacuous(tally, msg):
    """vacuity guard: a harness self-check, raised only when nothing failed - a run that found violations is allowed to
    have explored less than usual (e.g. because valid baselines could not be built, which is itself reported)"""
    if not tally.fails:
        raise HarnessError(msg)
