"""C14  The client sends only what it should, where it should, and nothing on a dry run.

Explicit-state search: 2 OFXClient instances + a scripted server (vf.fakehttp) + the real profile cache directory.
Events (client, call, mode); after every event the HTTP log of that event is checked against the property; states are
de-duplicated on (cookie jars, cached profiles, server cookie flags).
"""
import datetime
import os
import shutil
import urllib.error
import urllib.parse
import warnings

from vf import fakehttp as F
from vf import xstate
from vf.core import vacuous, HarnessError, Tally

LEVEL = "model_checking"
UTC = datetime.timezone.utc

CALLS = [("profile", "dryrun"), ("profile", "normal")] + [(c, m) for c in ("statements", "accounts", "tax") for m in ("dryrun", "skip_profile", "normal")]
# statement kinds the profile may not list (closing statements, credit card): they too go to an advertised URL
CALLS += [("stmtend", "normal"), ("ccstmt", "normal")]
# a statement request without any account (what `ofxget stmt` sends, after a warning, when none is configured)
CALLS += [("emptystmt", "normal")]
# "timeout": a normal call during which the server accepts the request of that kind and then never answers
CALLS += [(c, "timeout") for c in ("profile", "statements", "accounts", "tax")]
# "redirect307" / "redirect308": a normal call during which the server answers the request of that kind with a temporary /
# permanent redirect to another host.  urllib does not re-send a POST on 307 / 308 (the call fails with HTTPError): the
# request - credentials and all - must not be sent a second time, to a URL neither configured nor advertised
CALLS += [(c, m) for c in ("profile", "statements", "tax") for m in ("redirect307", "redirect308")]
ELSEWHERE = "http://ofx.elsewhere.example/relocated/Srv.dll"
WIREKIND = {"stmtend": "statements", "ccstmt": "statements", "emptystmt": "statements"}
BANK_ONLY = "other-path-bank-only"
NO_SERVICE = "no-statement-service"  # the profile lists the sign-on and profile message sets only: no URL is advertised for any statement service


def cache_dir():
    from ofxtools import config

    return config.DATADIR / "fiprofiles"


class System:
    def __init__(self, advertise, cookiepolicy, pair):
        self.advertise = advertise
        self.cookiepolicy = cookiepolicy
        self.pair = pair
        self.net = F.Net()
        self.net.install()

    # -- configuration ----------------------------------------------------------------------
    def client_cfg(self, who):
        a = dict(url="http://ofx.bank-a.example/OFX/Srv.dll", org="ORGA", fid="1", userid="alice-user", password="pwA-s3cr3t!", useragent="UA-A", version=203, close=True, clientuid="CUID-A")
        if who == "A":
            return a
        if self.pair == "same-server":
            return dict(a, userid="bob-user", password="pwB-0ther?", useragent="UA-B", version=102, close=False, clientuid=None)
        if self.pair == "same-server-second-keeps-no-cookies":
            # persist_cookies=False: this client never sends a cookie, and what the server sets on its responses is nobody's
            return dict(a, userid="bob-user", password="pwB-0ther?", useragent="UA-B", version=102, close=False, clientuid=None, persist=False)
        return dict(url="https://ofx.bank-b.example/b/Ofx?Tenant=B", org="ORGB", fid="2", userid="bob-user", password="pwB-0ther?", useragent="UA-B", version=160, close=True, clientuid=None)

    def service_url(self, cfg):
        if self.advertise == "same":
            return cfg["url"]
        p = urllib.parse.urlsplit(cfg["url"])
        if self.advertise == BANK_ONLY:
            return f"{p.scheme}://{p.netloc}/service{p.path}"
        return f"{p.scheme}://svc.{p.netloc.split('.', 1)[1]}{p.path}"

    def advertised(self, cfg):
        """{'bank':..., 'cc':..., 'inv':...} as the profile of cfg's server advertises them"""
        if self.advertise == "moving":
            # the server re-sends its full profile on every request, never bumps DTPROFUP, and alternates the service URL
            p = urllib.parse.urlsplit(cfg["url"])
            n = self.moves.get(cfg["url"], 0)
            u = f"{p.scheme}://{p.netloc}/svc{n % 2}{p.path}"
            return {"bank": u, "cc": u, "inv": u}
        if self.advertise == NO_SERVICE:
            return {}
        if self.advertise == BANK_ONLY:
            # only the banking message set, closing statements not available: the profile says nothing about the
            # URL for closing-statement and credit-card requests
            return {"bank": self.service_url(cfg)}
        if self.advertise != "split":
            u = self.service_url(cfg)
            return {"bank": u, "cc": u, "inv": u}
        p = urllib.parse.urlsplit(cfg["url"])
        return {k: f"{p.scheme}://{p.netloc}/{k}{p.path}" for k in ("bank", "cc", "inv")}

    # -- server model -----------------------------------------------------------------------
    def handler(self, ex):
        host = urllib.parse.urlsplit(ex.url).netloc
        ua = ex.headers.get("user-agent", "?")
        cookies = []
        flag = (ua, host)
        if self.timeout_kind is not None:
            try:
                kind = F.read_request(ex.body)["kind"]
            except Exception:
                kind = None
            if kind == self.timeout_kind:
                import socket

                raise socket.timeout("timed out")
        if self.redirect is not None and ex.url != ELSEWHERE:
            try:
                kind = F.read_request(ex.body)["kind"]
            except Exception:
                kind = None
            if kind == self.redirect[0]:
                return self.redirect[1], [("Location", ELSEWHERE), ("Content-Length", "0")], b""
        if self.cookiepolicy == "every" or (self.cookiepolicy == "first" and flag not in self.first_sent):
            cookies = [f"SID={ua}.{host.split('.')[0]}.{host.split('.')[1]}; Path=/", f"PREF=p-{ua}; Path=/"]
            self.first_sent.add(flag)
            self.cookies_set.setdefault(flag, {}).update({"SID": f"{ua}.{host.split('.')[0]}.{host.split('.')[1]}", "PREF": f"p-{ua}"})
        try:
            rq = F.read_request(ex.body)
        except Exception as e:
            return F.ok(b"not ofx")
        if rq["kind"] == "profile":
            cfg = next(c for c in (self.client_cfg("A"), self.client_cfg("B")) if c["url"] == ex.url or True)
            # which client's profile?  by URL (configured URLs differ between servers; same-server clients share it)
            owner = self.client_cfg("A") if ex.url == self.client_cfg("A")["url"] else self.client_cfg("B")
            if self.advertise == "moving":
                self.moves[owner["url"]] = self.moves.get(owner["url"], 0) + 1
            adv = self.advertised(owner)
            self.last_advertised = adv
            prof_date = datetime.datetime(2020, 1, 1, tzinfo=UTC)
            if rq["dtprofup_ms"] >= 1577836800000 and self.advertise != "moving":
                body = F.profile_response(rq["trnuids"][0], prof_date, {}, status=1)
            else:
                body = F.profile_response(rq["trnuids"][0], prof_date, adv, closingavail=self.advertise != BANK_ONLY)
            return F.ok(body, cookies)
        body = F.generic_response(rq["kind"], rq["trnuids"])
        return F.ok(body, cookies)

    # -- replay -----------------------------------------------------------------------------
    def replay(self, history):
        from ofxtools.Client import AUTH_PLACEHOLDER, CcStmtRq, OFXClient, StmtEndRq, StmtRq

        d = cache_dir()
        if d.exists():
            shutil.rmtree(d)
        self.net.log = []
        self.net.handler = self.handler
        self.first_sent = set()
        self.cookies_set = {}
        self.moves = {}
        self.last_advertised = None
        self.timeout_kind = None
        self.redirect = None
        clients = {}
        cfgs = {}
        for who in ("A", "B"):
            c = self.client_cfg(who)
            cfgs[who] = c
            clients[who] = OFXClient(c["url"], userid=c["userid"], org=c["org"], fid=c["fid"], version=c["version"], close_elements=c["close"], useragent=c["useragent"],
                                     clientuid=c["clientuid"], bankid="123456789", brokerid="broker.example", **({"persist_cookies": False} if c.get("persist") is False else {}))
        fails = []
        for i, (who, call, mode) in enumerate(history):
            last = i == len(history) - 1
            cl, cfg = clients[who], cfgs[who]
            n0 = len(self.net.log)
            expected_cookies_before = {k: dict(v) for k, v in self.cookies_set.items()}
            kw = {}
            if mode == "dryrun":
                kw["dryrun"] = True
            elif mode == "skip_profile":
                kw["skip_profile"] = True
            self.timeout_kind = WIREKIND.get(call, call) if mode == "timeout" else None
            self.redirect = (WIREKIND.get(call, call), int(mode[-3:])) if mode.startswith("redirect") else None
            try:
                with warnings.catch_warnings():
                    warnings.simplefilter("ignore")
                    if call == "profile":
                        ret = cl.request_profile(**kw)
                    elif call == "statements":
                        ret = cl.request_statements(cfg["password"], StmtRq(acctid="111", accttype="CHECKING"), **kw)
                    elif call == "stmtend":
                        ret = cl.request_statements(cfg["password"], StmtEndRq(acctid="111", accttype="CHECKING"), **kw)
                    elif call == "emptystmt":
                        ret = cl.request_statements(cfg["password"], **kw)
                    elif call == "ccstmt":
                        ret = cl.request_statements(cfg["password"], CcStmtRq(acctid="4111"), **kw)
                    elif call == "accounts":
                        ret = cl.request_accounts(cfg["password"], datetime.datetime(2020, 1, 1, tzinfo=UTC), **kw)
                    else:
                        ret = cl.request_tax1099(cfg["password"], "2023", acctnum="A1", **kw)
                err = None
            except Exception as e:
                ret, err = None, e
            self.timeout_kind = None
            self.redirect = None
            if last:
                fails = self.check_event(history, who, call, mode, cfg, cfgs, ret, err, self.net.log[n0:], expected_cookies_before, AUTH_PLACEHOLDER)
        key = self.key(clients)
        return key, fails

    def key(self, clients):
        jars = []
        for who in ("A", "B"):
            jars.append(tuple(sorted((c.domain, c.path, c.name, c.value) for c in clients[who].cookiejar)))
        d = cache_dir()
        cached = tuple(sorted(p.name for p in d.iterdir())) if d.exists() else ()
        return (tuple(jars), cached, tuple(sorted(self.first_sent)), tuple(sorted((k, v % 2) for k, v in self.moves.items())))

    # -- oracle -----------------------------------------------------------------------------
    def check_event(self, history, who, call, mode, cfg, cfgs, ret, err, exchanges, cookies_before, placeholder):
        fails = []
        case = {"advertise": self.advertise, "cookiepolicy": self.cookiepolicy, "pair": self.pair, "history": [list(h) for h in history]}
        sigbase = f"C14|{call}|{mode}"

        def fail(kind, detail):
            fails.append((f"{sigbase}|{kind}", case, detail))

        split_refusal = False
        timed_out = False
        if err is not None and mode == "timeout" and isinstance(err, OSError) and exchanges and exchanges[-1].error:
            # the server never answered: the call fails - having sent the request once
            timed_out = True
        elif err is not None and mode.startswith("redirect") and isinstance(err, urllib.error.HTTPError) and err.code == int(mode[-3:]) and exchanges and exchanges[-1].status == err.code:
            # the redirect was not followed: the call fails - having sent the request once
            timed_out = True
        elif err is not None:
            if self.advertise in ("split", NO_SERVICE) and mode in ("normal", "timeout", "redirect307", "redirect308") and call != "profile":
                # the profile advertises different URLs per service: refusing to send is acceptable, as long as
                # nothing carrying the credentials left the client
                split_refusal = True
            else:
                fail(f"raises-{type(err).__name__}", f"{type(err).__name__}: {str(err)[:200]}")
                return fails
        if mode == "dryrun":
            if exchanges:
                fail("dry-run-sent-a-request", f"{exchanges}")
            try:
                data = ret.read()
                rq = F.read_request(data)
            except Exception as e:
                fail("dry-run-returns-no-request", repr(e))
            return fails
        other = cfgs["B" if who == "A" else "A"]
        if self.advertise == "moving":
            svc = set(self.last_advertised.values()) if self.last_advertised else set()  # what the profile answer of THIS call said
        else:
            svc = self.service_url(cfg) if self.advertise not in ("split", NO_SERVICE) else set(self.advertised(cfg).values())
        want = []
        wk = WIREKIND.get(call, call)
        if call == "profile":
            want = [("profile", cfg["url"], False)]
        elif mode == "skip_profile":
            want = [(wk, cfg["url"], True)]
        else:
            want = [("profile", cfg["url"], False), (wk, svc, True)]
        if mode == "timeout" and not timed_out and not split_refusal:
            fail("unanswered-request-did-not-fail", f"{exchanges} returned {ret!r}")
            return fails
        if split_refusal:
            want = want[:1]
        if len(exchanges) != len(want):
            fail("wrong-number-of-exchanges", f"{exchanges}, expected {[(w[0], w[1]) for w in want]}")
            return fails
        cookies = {k: dict(v) for k, v in cookies_before.items()}
        for ex, (kind, url, credentialed) in zip(exchanges, want):
            host = urllib.parse.urlsplit(ex.url).netloc
            if ex.method != "POST":
                fail("not-a-POST", ex.method)
            if (ex.url not in url) if isinstance(url, set) else (ex.url != url):
                fail("credentials-sent-to-wrong-url" if credentialed else "profile-request-sent-to-wrong-url", f"{kind} request went to {ex.url}, expected {url}")
            if ex.headers.get("content-type") != "application/x-ofx":
                fail("wrong-content-type", str(ex.headers.get("content-type")))
            acc = ex.headers.get("accept", "")
            if not any(a.strip().split(";")[0] in ("application/x-ofx", "*/*") for a in acc.split(",")):
                fail("accept-does-not-admit-ofx", acc)
            if ex.headers.get("user-agent") != cfg["useragent"]:
                fail("wrong-user-agent", str(ex.headers.get("user-agent")))
            try:
                rq = F.read_request(ex.body)
            except Exception as e:
                fail("body-is-not-an-ofx-request", f"{e}: {ex.body[:200]!r}")
                continue
            if rq["kind"] != kind:
                fail("wrong-request-kind", f"{rq['kind']} != {kind}")
            if rq["version"] != cfg["version"]:
                fail("wrong-version", str(rq["version"]))
            son = rq["sonrq"]
            if credentialed:
                if son.get("USERID") != cfg["userid"] or son.get("USERPASS") != cfg["password"]:
                    fail("wrong-credentials", f"{son.get('USERID')!r}")
            else:
                if son.get("USERID") != placeholder or son.get("USERPASS") != placeholder:
                    fail("profile-request-not-anonymous", f"USERID={son.get('USERID')!r}")
                if cfg["password"].encode() in ex.body or cfg["userid"].encode() in ex.body:
                    fail("real-credentials-in-profile-request", "")
            if other["password"].encode() in ex.body or (other["userid"].encode() in ex.body):
                fail("other-clients-credentials", "")
            # cookies: exactly those this host has set on THIS client (identified by its user agent) so far
            sent = {}
            if ex.headers.get("cookie"):
                for part in ex.headers["cookie"].split(";"):
                    k, _, v = part.strip().partition("=")
                    sent[k] = v
            exp = cookies.get((cfg["useragent"], host), {}) if cfg.get("persist", True) else {}
            if sent != exp:
                foreign = [v for v in sent.values() if other["useragent"] in v and cfg["useragent"] not in v]
                kindc = "cookie-of-another-client" if foreign else ("cookie-not-replayed" if set(exp) - set(sent) else "unexpected-cookie")
                fail(kindc, f"request to {ex.url} carried {sent}, this host had set {exp} on this client")
            # the response to this exchange may set cookies that the next exchange of the same call must carry
            if ex.resp_headers:
                for k, v in ex.resp_headers:
                    if k == "Set-Cookie":
                        nm, _, val = v.split(";")[0].partition("=")
                        cookies.setdefault((cfg["useragent"], host), {})[nm] = val
        if split_refusal or timed_out:
            return fails
        # the call returns what the server sent
        try:
            data = ret.read()
        except Exception as e:
            fail("no-response-returned", repr(e))
            return fails
        lastex = exchanges[-1]
        if call != "profile" and data != lastex.resp_body:
            fail("returned-bytes-differ-from-response", f"{data[:80]!r}")
        return fails


def reconfigure_work(chunk):
    """one client whose configuration is changed by plain attribute assignment between requests (what its constructor
    does): every request is sent as configured at that moment - user agent, configured URL for profile requests, user id"""
    from ofxtools.Client import AUTH_PLACEHOLDER, OFXClient, StmtRq

    from vf.core import private_xdg

    private_xdg()
    t = Tally()
    net = F.Net()
    net.install()
    try:
        for first, change, second in chunk:
            d = cache_dir()
            if d.exists():
                shutil.rmtree(d)
            net.log = []
            urls = {"http://ofx.one.example/OFX": "http://svc.one.example/Svc", "http://ofx.two.example/Two/ofx": "http://svc.two.example/Svc2"}

            def handler(ex):
                rq = F.read_request(ex.body)
                if rq["kind"] == "profile":
                    return F.ok(F.profile_response(rq["trnuids"][0], datetime.datetime(2020, 1, 1, tzinfo=UTC), {"bank": urls[ex.url], "cc": urls[ex.url], "inv": urls[ex.url]}))
                return F.ok(F.generic_response(rq["kind"], rq["trnuids"]))

            net.handler = handler
            cfg = {"url": "http://ofx.one.example/OFX", "useragent": "UA-one", "userid": "user-one", "org": "ONE", "fid": "1"}
            cl = OFXClient(cfg["url"], userid=cfg["userid"], org=cfg["org"], fid=cfg["fid"], useragent=cfg["useragent"], bankid="123456789")
            case = {"part": "reconfigure", "first": first, "change": change, "second": second}

            def call(kind):
                with warnings.catch_warnings():
                    warnings.simplefilter("ignore")
                    if kind == "profile":
                        cl.request_profile().read()
                    elif kind == "statements":
                        cl.request_statements("pw-" + cfg["userid"], StmtRq(acctid="1", accttype="CHECKING")).read()
                    elif kind == "statements-skip-profile":
                        cl.request_statements("pw-" + cfg["userid"], StmtRq(acctid="1", accttype="CHECKING"), skip_profile=True).read()
                    elif kind == "headers":
                        cl.http_headers  # merely looking at what would be sent

            t.count("evaluations")
            try:
                call(first)
                if change == "useragent":
                    cfg["useragent"] = cl.useragent = "UA-two/2.0"
                elif change == "userid":
                    cfg["userid"] = cl.userid = "user-two"
                else:
                    cfg.update(url="http://ofx.two.example/Two/ofx", org="TWO", fid="2")
                    cl.url, cl.org, cl.fid = cfg["url"], cfg["org"], cfg["fid"]
                n0 = len(net.log)
                call(second)
            except Exception as e:
                t.fail(f"C14|reconfigured|{change}|raises-{type(e).__name__}", case, f"{type(e).__name__}: {str(e)[:200]}")
                continue
            sig = f"C14|reconfigured|{change}"
            ok = True
            for ex in net.log[n0:]:
                rq = F.read_request(ex.body)
                if ex.headers.get("user-agent") != cfg["useragent"]:
                    t.fail(f"{sig}|wrong-user-agent", case, f"sent {ex.headers.get('user-agent')!r}, configured {cfg['useragent']!r}")
                    ok = False
                if rq["kind"] == "profile":
                    if ex.url != cfg["url"]:
                        t.fail(f"{sig}|profile-request-sent-to-wrong-url", case, f"{ex.url} != {cfg['url']}")
                        ok = False
                    if rq["sonrq"].get("USERID") != AUTH_PLACEHOLDER:
                        t.fail(f"{sig}|profile-request-not-anonymous", case, str(rq["sonrq"].get("USERID")))
                        ok = False
                else:
                    want = cfg["url"] if second == "statements-skip-profile" else urls[cfg["url"]]
                    if ex.url != want:
                        t.fail(f"{sig}|credentials-sent-to-wrong-url", case, f"{ex.url} != {want}")
                        ok = False
                    if rq["sonrq"].get("USERID") != cfg["userid"] or rq["sonrq"].get("USERPASS") != "pw-" + cfg["userid"]:
                        t.fail(f"{sig}|wrong-credentials", case, str(rq["sonrq"].get("USERID")))
                        ok = False
                fi = rq["sonrq"].get("FI")
                if fi is not None and dict(fi).get("ORG") != cfg["org"]:
                    t.fail(f"{sig}|wrong-fi", case, str(fi))
                    ok = False
            if ok:
                t.outcome("reconfigured-ok")
    finally:
        net.uninstall()
    return t


CONFIGS = [(adv, pol, pair) for adv in ("same", BANK_ONLY, "other-host", "split", "moving", NO_SERVICE) for pol in ("none", "first", "every") for pair in ("same-server", "other-server", "same-server-second-keeps-no-cookies") if not (pair == "same-server-second-keeps-no-cookies" and pol == "none")]


def explore(args):
    (adv, pol, pair), depth = args
    from vf.core import private_xdg

    private_xdg()
    t = Tally()
    sysm = System(adv, pol, pair)
    events = [(who, c, m) for who in ("A", "B") for (c, m) in CALLS]
    try:
        r = xstate.bfs(sysm, events, depth, t)
    finally:
        sysm.net.uninstall()
    t.count("states", r["states"])
    t.count("transitions", r["transitions"])
    t.count("systems")
    if r["fixpoint"]:
        t.count("fixpoints")
    t.counts["max_depth"] = max(t.counts.get("max_depth", 0), r["max_depth"])
    for s in r["samples"][:1]:
        t.sample({"system": [adv, pol, pair], "history": s[0], "state_key": s[1]})
    return t


def work(chunk):
    t = Tally()
    for a in chunk:
        t.merge(explore(a))
    return t


def run(ctx):
    depth = 3 if ctx.quick else 4
    rot = ctx.seed % len(CONFIGS)
    cfgs = CONFIGS[rot:] + CONFIGS[:rot]
    if ctx.quick:
        keep = [c for c in cfgs if not (c[2] == "other-server" and c[1] == "none") and not (c[2] == "same-server-second-keeps-no-cookies" and c[0] in ("split", "moving", NO_SERVICE))]
        blocks = {}
        for c in keep:
            blocks.setdefault(c[0], []).append(c)
        order = []
        for i in range(5):
            for adv in blocks:
                if i < len(blocks[adv]):
                    order.append(blocks[adv][(i + ctx.seed) % len(blocks[adv])])
        nc = "same-server-second-keeps-no-cookies"
        must = [("same", "every", nc), ("other-host", "first", nc)]  # under every seed
        cfgs = [c for c in dict.fromkeys(order) if c not in must][:14] + must  # one system per core, every advertise variant at least twice
    tally = ctx.pmap(work, [(c, depth) for c in cfgs], chunk=1)
    rjobs = [(a, ch, b) for a in ("profile", "statements", "statements-skip-profile", "headers") for ch in ("useragent", "userid", "institution") for b in ("profile", "statements", "statements-skip-profile")]
    tally.merge(ctx.pmap(reconfigure_work, rjobs))
    md = tally.counts.pop("max_depth", 0)
    if tally.counts.get("states", 0) < 50 or tally.counts.get("transitions", 0) < 1000:
        vacuous(tally, f"vacuous: {tally.counts}")
    cov = {
        "states": tally.counts.get("states", 0),
        "transitions": tally.counts.get("transitions", 0),
        "traces_validated_against_impl": tally.counts.get("transitions", 0),
        "samples": tally.samples[:3],
        "systems": tally.counts.get("systems", 0),
        "systems_at_fixpoint": tally.counts.get("fixpoints", 0),
        "depth_bound": depth,
        "max_depth_with_new_state": md,
        "rule": (f"{len(cfgs)} of the {len(CONFIGS)}" if ctx.quick else f"all {len(CONFIGS)}") + " closed systems = profile advertising {no statement service at all (nothing carrying the credentials may leave), same URL, other path for a banking-only profile without closing statements, other host, a different URL per service, a server that re-sends its profile with an unchanged date but an alternating service URL} x server cookie policy {none, first response, every response} x second client "
        "{same server, other server, same server without a cookie jar (persist_cookies=False)}; per system BFS over all event sequences (48 events: 2 clients x {profile: dryrun/normal; statements, accounts, tax: dryrun/skip_profile/"
        "normal; closing-statement, credit-card and empty statement requests: normal; each of the four kinds with a server that takes the request and never answers; profile, statements, tax with a server that answers 307 or 308 pointing to another host}) to the depth bound, states de-duplicated on (both cookie jars, cached profile files, server cookie flags) - every field future requests can depend on; every "
        "transition executes the real OFXClient against the scripted server and checks that event's HTTP exchanges against the model (count, method, URL, headers, anonymous vs "
        "real credentials, exact cookie set, returned bytes)",
        "exhaustive": True,
    }
    return {"tally": tally, "coverage": cov, "assumptions": [
        "only the socket is replaced (urllib HTTPHandler.http_open/https_open); the urllib code path is the one exercised (requests is not installed)",
        "server identifies a client instance by its configured User-Agent when choosing cookie values",
        "depth-bounded: states first reachable only by longer histories are not visited (evidence says whether a fix-point was reached)"]}


def replay(ctx, case):
    if case.get("part") == "reconfigure":
        t = reconfigure_work([(case["first"], case["change"], case["second"])])
        for sig, (n, c, d) in sorted(t.fails.items()):
            print(" ", sig, "|", d)
        return bool(t.fails)
    from vf.core import private_xdg

    private_xdg()
    sysm = System(case["advertise"], case["cookiepolicy"], case["pair"])
    try:
        key, fails = sysm.replay(tuple(tuple(h) for h in case["history"]))
    finally:
        sysm.net.uninstall()
    for ex in sysm.net.log:
        print("  ", ex, "cookie:", ex.headers.get("cookie"))
    for sig, c, d in fails:
        print(" ", sig, "|", d)
    return bool(fails)
