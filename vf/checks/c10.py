"""C10  Element type converters are mutually inverse, canonical, and strict at limits.

Every parameterisation of every converter x its whole small domain (see DESIGN C10).  Oracles:
  W  convert(unconvert(v)) == v                     for every domain value v
  R  v0=convert(t0) equals the reference reading of t0; t1=unconvert(v0); convert(t1)==v0; unconvert(convert(t1))==t1
  N  None passes iff optional (both directions); "" is None for the string-like readers when optional, refused when required
  L  at-limit accepted, beyond-limit rejected (NagString: warning, kept whole)
  X  non-values rejected when read, wrong Python types rejected when written
"""
import datetime
import decimal
import itertools
import warnings

from vf import ref_types as R
from vf.core import disturb_process
from vf.core import vacuous, HarnessError, Tally

LEVEL = "exploration"
D = decimal.Decimal


def T():
    from ofxtools import Types

    return Types


def mk(spec):
    """spec: (typename, params tuple, required, wrapped_in_list)"""
    Ty = T()
    name, params, required, inlist = spec
    cls = getattr(Ty, name)
    if name == "OneOf" and params and str(params[0]).startswith("@"):
        from ofxtools.models import i18n

        c = cls(*getattr(i18n, params[0][1:]), required=required)  # one of the library's own token tables
    elif name == "OneOf":
        c = cls(*params, required=required)
    elif name in ("Bool", "DateTime", "Time"):
        c = cls(required=required)
    else:
        c = cls(params[0], required=required)
    if inlist:
        c = Ty.ListElement(c)
    return c


def specname(spec):
    name, params, required, inlist = spec
    s = f"{name}({','.join(map(str, params))};required={required})"
    return f"ListElement[{s}]" if inlist else s


def all_specs():
    out = []
    for inlist in (False, True):
        for req in (False, True):
            out.append(("Bool", (), req, inlist))
            for L in (None, 1, 2, 5):
                out.append(("String", (L,), req, inlist))
                out.append(("NagString", (L,), req, inlist))
            for toks in (("A",), ("A", "B"), ("0", "1", "100")):
                out.append(("OneOf", toks, req, inlist))
            if not inlist:
                for table, key in (("@CURRENCY_CODES", "CURRENCY.cursym"), ("@LANG_CODES", "SONRQ.language"), ("@COUNTRY_CODES", "PAYEE.country")):
                    out.append(("OneOf", (table, key), req, inlist))
            for L in (None, 1, 2, 3):
                out.append(("Integer", (L,), req, inlist))
            for S in (None, 0, 1, 2, 4):
                out.append(("Decimal", (S,), req, inlist))
            out.append(("DateTime", (), req, inlist))
            out.append(("Time", (), req, inlist))
    return out


STR_ALPHA = ["a", "&", "<", "é", " "]


def strings_upto(n):
    for k in range(1, n + 1):
        for tup in itertools.product(STR_ALPHA, repeat=k):
            s = "".join(tup)
            if s[0] == " " or s[-1] == " ":
                continue  # blank only in the middle
            yield s


class Rec:
    def __init__(self, t, spec):
        self.t = t
        self.spec = spec
        self.name = specname(spec)

    def fail(self, op, kind, case, detail):
        self.t.fail(f"C10|{self.name}|{op}|{kind}", dict(case, spec=list(map(_j, self.spec))), detail)


def _j(x):
    return list(x) if isinstance(x, tuple) else x


def call(fn, arg):
    with warnings.catch_warnings(record=True) as w:
        warnings.simplefilter("always")
        try:
            return ("ok", fn(arg), [x.category.__name__ for x in w])
        except Exception as e:
            return ("exc", e, [x.category.__name__ for x in w])


def eqval(a, b):
    """value equality that distinguishes decimal exponents and python types"""
    if type(a) is not type(b):
        return False
    if isinstance(a, D):
        return a.as_tuple() == b.as_tuple()
    return a == b


def write_read(rec, conv, v, expect_text=None):
    """W: convert(unconvert(v)) == v"""
    t = rec.t
    t.count("evaluations")
    r = call(conv.unconvert, v)
    if r[0] == "exc":
        rec.fail("write", "domain-value-refused", {"op": "W", "value": v}, f"unconvert({v!r}) raises {type(r[1]).__name__}: {r[1]}")
        return None
    text = r[1]
    if not isinstance(text, str):
        rec.fail("write", "not-text", {"op": "W", "value": v}, f"unconvert({v!r}) = {text!r}")
        return None
    if expect_text is not None and not expect_text(text):
        rec.fail("write", "bad-lexical-form", {"op": "W", "value": v}, f"unconvert({v!r}) = {text!r}")
    r2 = call(conv.convert, text)
    if r2[0] == "exc":
        rec.fail("write-read", "own-text-refused", {"op": "W", "value": v}, f"convert({text!r}) raises {type(r2[1]).__name__}: {r2[1]}")
        return text
    if not same_value(rec.spec[0], r2[1], v):
        rec.fail("write-read", "value-changed", {"op": "W", "value": v}, f"{v!r} -> {text!r} -> {r2[1]!r}")
    else:
        t.outcome("W-ok")
    return text


def same_value(tname, a, b):
    if tname == "DateTime":
        return isinstance(a, datetime.datetime) and a.utcoffset() is not None and R.pydt_to_us(a) == R.pydt_to_us(b)
    if tname == "Time":
        return isinstance(a, datetime.time) and a.utcoffset() is not None and R.pytime_to_us(a) == R.pytime_to_us(b)
    return eqval(a, b)


def read_canon(rec, conv, t0, expected, eq=None):
    """R: reading of t0 equals `expected` (reference), canonical text is a fixed point"""
    t = rec.t
    t.count("evaluations")
    tname = rec.spec[0]
    match_ref = eq or (lambda a, b: same_value(tname, a, b))
    eq = lambda a, b: same_value(tname, a, b)
    r = call(conv.convert, t0)
    if r[0] == "exc":
        rec.fail("read", "valid-text-refused", {"op": "R", "text": t0}, f"convert({t0!r}) raises {type(r[1]).__name__}: {r[1]}")
        return
    v0 = r[1]
    if not match_ref(v0, expected):
        rec.fail("read", "wrong-value", {"op": "R", "text": t0}, f"convert({t0!r}) = {v0!r}, reference {expected!r}")
        return
    r1 = call(conv.unconvert, v0)
    if r1[0] == "exc":
        rec.fail("read-write", "read-value-refused", {"op": "R", "text": t0}, f"unconvert({v0!r}) raises {type(r1[1]).__name__}: {r1[1]}")
        return
    t1 = r1[1]
    r2 = call(conv.convert, t1)
    if r2[0] == "exc" or not eq(r2[1], v0):
        if tname in ("String", "NagString") and isinstance(v0, str) and R.unescape(v0) != v0:
            # the decoded value itself spells an entity (e.g. '&amp;amp;' -> '&amp;'): unconvert() does not escape
            # (escaping is left to the XML writer), so its text is decoded again.  One signature for the whole family.
            rec.t.fail("C10|String-family|canonical|decoded-value-spells-an-entity", dict({"op": "R", "text": t0}, spec=list(map(_j, rec.spec))), f"{t0!r} -> {v0!r} -> {t1!r} -> {r2[1]!r}")
            return
        rec.fail("canonical", "canonical-text-reads-differently", {"op": "R", "text": t0}, f"{t0!r} -> {v0!r} -> {t1!r} -> {r2[1]!r}")
        return
    r3 = call(conv.unconvert, r2[1])
    if r3[0] == "exc" or r3[1] != t1:
        rec.fail("canonical", "not-a-fixed-point", {"op": "R", "text": t0}, f"{t0!r} -> {t1!r} -> {r3[1]!r}")
        return
    t.outcome("R-ok")


def must_reject(rec, fn, arg, op, kind):
    rec.t.count("evaluations")
    r = call(fn, arg)
    if r[0] == "ok":
        rec.fail(op, kind, {"op": "X", "which": op, "arg": arg if isinstance(arg, (str, int, float, type(None))) else repr(arg)}, f"{op}({arg!r}) = {r[1]!r}")
    else:
        rec.t.outcome("X-rejected")


def none_rules(rec, conv):
    req = rec.spec[2]
    for op in ("convert", "unconvert"):
        rec.t.count("evaluations")
        r = call(getattr(conv, op), None)
        if req:
            if r[0] == "ok":
                rec.fail(op, "none-accepted-though-required", {"op": "N", "which": op}, f"{op}(None) = {r[1]!r}")
            else:
                rec.t.outcome("N-required-refused")
        else:
            if r[0] == "exc" or r[1] is not None:
                rec.fail(op, "none-not-passed-through", {"op": "N", "which": op}, f"{op}(None) -> {r[1]!r}")
            else:
                rec.t.outcome("N-optional-none")
    if req:
        must_reject(rec, conv.convert, "", "convert", "empty-text-accepted-though-required")


# ---------------------------------------------------------------------------------------------
def do_bool(rec, conv):
    for v, txt in ((True, "Y"), (False, "N")):
        write_read(rec, conv, v, lambda s: s in ("Y", "N"))
        read_canon(rec, conv, txt, v)
    for bad in ("y", "n", "YN", "1", "0", "true", "abc", " Y"):
        must_reject(rec, conv.convert, bad, "convert", "non-value-accepted")
    for bad in ("Y", 1, 0, 1.0, D(1), object()):
        must_reject(rec, conv.unconvert, bad, "unconvert", "wrong-type-accepted")


def do_string(rec, conv):
    name, (L,), req, inlist = rec.spec
    nag = name == "NagString"
    top = (L + 1) if L is not None else 3
    for s in strings_upto(top):
        over = L is not None and len(s) > L
        if not over:
            write_read(rec, conv, s)
            read_canon(rec, conv, s, R.unescape(s))
        else:
            for op in ("convert", "unconvert"):
                rec.t.count("evaluations")
                r = call(getattr(conv, op), s)
                if nag:
                    if r[0] == "exc" or r[1] != s or "OFXTypeWarning" not in r[2]:
                        rec.fail(op, "overlong-nagstring-not-warned-and-kept", {"op": "L", "which": op, "arg": s}, f"{op}({s!r}) -> {r[1]!r} warnings={r[2]}")
                    else:
                        rec.t.outcome("L-nag-kept")
                else:
                    if r[0] == "ok":
                        rec.fail(op, "overlong-accepted", {"op": "L", "which": op, "arg": s}, f"{op}({s!r}) = {r[1]!r} (limit {L})")
                    else:
                        rec.t.outcome("L-over-rejected")
    # entity texts: decoded once; the limit applies to the decoded value
    ents = ["&amp;", "&lt;", "&gt;", "&nbsp;", "&apos;", "&quot;", "a&amp;lt;b", "&amp;amp;", "x&lt;y&gt;z", "&amp", "&foo;", "a&"]
    for e in ents:
        val = R.unescape(e)
        if L is not None and len(val) > L:
            if not nag:
                must_reject(rec, conv.convert, e, "convert", "overlong-accepted")
            continue
        read_canon(rec, conv, e, val)
    # exactly at the limit with multi-byte characters
    if L is not None:
        for ch in ("é", "€", "\U0001F4A9"):
            read_canon(rec, conv, ch * L, ch * L)
            write_read(rec, conv, ch * L)
    for bad in (5, 1.5, D(1), True, b"a", ["a"], object()):
        must_reject(rec, conv.unconvert, bad, "unconvert", "wrong-type-accepted")
        must_reject(rec, conv.convert, bad, "convert", "wrong-type-accepted")


_SNAP = {}


def snapshot(key):
    if not _SNAP:
        import json
        import os

        with open(os.path.join(os.path.dirname(os.path.dirname(os.path.abspath(__file__))), "ref_enums.json")) as f:
            _SNAP.update(json.load(f))
    return _SNAP[key]


def do_oneof(rec, conv):
    name, toks, req, inlist = rec.spec
    if str(toks[0]).startswith("@"):
        # an enumeration over one of the library's token tables: every token of the pinned table (vf/ref_enums.json) is in
        # the domain; two neighbouring tokens run together, and other spellings, are not
        snap = snapshot(toks[1])
        for tk in snap:
            write_read(rec, conv, tk)
            read_canon(rec, conv, tk, tk)
        now = set(snap)
        for a, b in zip(snap, snap[1:]):
            for f in (a + b, a.lower(), a + " "):
                if f not in now:
                    must_reject(rec, conv.convert, f, "convert", "foreign-token-accepted")
                    must_reject(rec, conv.unconvert, f, "unconvert", "foreign-token-accepted")
        return
    for tk in toks:
        write_read(rec, conv, tk)
        read_canon(rec, conv, tk, tk)
    foreign = ["C", "a", "AB", "A ", " A", "10", "00", "1000", "abc", "YN"]
    for f in foreign:
        if f in toks:
            continue
        must_reject(rec, conv.convert, f, "convert", "foreign-token-accepted")
        must_reject(rec, conv.unconvert, f, "unconvert", "foreign-token-accepted")
    for bad in (5, 1.5, object()):
        must_reject(rec, conv.unconvert, bad, "unconvert", "wrong-type-accepted")
    if all(isinstance(x, str) for x in toks) and "1" in toks:
        must_reject(rec, conv.unconvert, 1, "unconvert", "wrong-type-accepted")


def do_integer(rec, conv):
    name, (L,), req, inlist = rec.spec
    lim = 10**L if L is not None else 1200
    for i in range(-lim + 1, lim):
        write_read(rec, conv, i, lambda s: R.decimal_lexical_ok(s) and "." not in s and "," not in s)
        read_canon(rec, conv, str(i), i)
    for i in (0, 7, lim - 1):
        for form in (f"+{i}", f"00{i}", f"-{i}"):
            if L is not None and len(form.lstrip("+-0") or "0") > L:
                continue
            read_canon(rec, conv, form, int(form))
    if L is not None:
        for v in (lim, lim + 1, -lim, -lim - 1, 10 * lim, -10 * lim):
            must_reject(rec, conv.unconvert, v, "unconvert", "beyond-limit-accepted")
            must_reject(rec, conv.convert, v, "convert", "beyond-limit-accepted")
            must_reject(rec, conv.convert, str(v), "convert", "beyond-limit-accepted")
    for bad in ("abc", "1.2.3", "--1", "YN", "1.5", "1,5", "0x10", "1e2", "١"):
        if bad == "١":
            continue
        must_reject(rec, conv.convert, bad, "convert", "non-value-accepted")
    for bad in ("5", 5.0, D(5), object(), [5]):
        must_reject(rec, conv.unconvert, bad, "unconvert", "wrong-type-accepted")


def dec_texts(m, s):
    """texts denoting m * 10^-s"""
    sign = "-" if m < 0 else ""
    digs = str(abs(m)).rjust(s + 1, "0")
    ip, fp = (digs[:-s], digs[-s:]) if s else (digs, "")
    out = []
    for sep in (".", ","):
        if s:
            out.append(f"{sign}{ip}{sep}{fp}")
            if ip == "0":
                out.append(f"{sign}{sep}{fp}")
            out.append(f"{sign}00{ip}{sep}{fp}")
        else:
            out.append(f"{sign}{ip}{sep}")
    if s == 0:
        out.append(f"{sign}{ip}")
        out.append(f"{sign}0{ip}")
    if m >= 0:
        out.append("+" + out[0])
    return out


def do_decimal(rec, conv):
    name, (S,), req, inlist = rec.spec
    bound = 300
    scales = range(0, 5)
    for s in scales:
        step = 1 if s <= 2 else 7
        for m in list(range(-bound, bound + 1, step)) + [-bound, bound, 5, 15, 25, 35, 45, 55, -5, -15, 125, 135]:
            v = D(m).scaleb(-s)  # exponent exactly -s
            trip = (1 if m < 0 else 0, abs(m), -s)
            # W: only values of the converter's own quantum are in the write domain
            if S is None or s == S:
                write_read(rec, conv, v, R.decimal_lexical_ok)
            else:
                # wrong quantum must be refused on write (property: values beyond the limits are rejected)
                must_reject(rec, conv.unconvert, v, "unconvert", "wrong-scale-accepted")
            # R: reading quantises to the scale (round-half-even, the decimal default)
            exp = trip if S is None else R.quantize_triple(trip, S)
            for txt in dec_texts(m, s)[: (6 if abs(m) < 40 else 2)]:
                read_canon(rec, conv, txt, exp, eq=lambda a, e: isinstance(a, D) and R.pydecimal_triple(a) == e)
    for bad in ("abc", "1.2.3", "--1", "YN", "1.2,3", ".", ",", "+", "-"):
        must_reject(rec, conv.convert, bad, "convert", "non-value-accepted")
    for bad in ("1.5", 5, 1.5, object(), [D(1)]):
        must_reject(rec, conv.unconvert, bad, "unconvert", "wrong-type-accepted")


UTC = datetime.timezone.utc


IB_ZONES = [("EST", -5), ("PST", -8), ("EDT", -4), ("CST", -6), ("EST", -5), ("MDT", -6), ("MST", -7), ("PDT", -7), ("CDT", -5)]


def do_datetime(rec, conv):
    from vf.universe import SeasonTZ

    zones = [0, -30, 330, -720, 840, -1, -210, -570]
    for order in (0, 1):
        stz = SeasonTZ(-360, -300, ("CST", "CDT"))
        vals = [datetime.datetime(2021, 1, 15, 12, 0, 0, 0, tzinfo=stz), datetime.datetime(2021, 7, 15, 12, 0, 0, 0, tzinfo=stz)]
        for v in (vals if order == 0 else vals[::-1]):
            write_read(rec, conv, v, lambda t: R.written_datetime_ok(t))
    for (y, mo, d, h, mi, s) in [(100, 6, 15, 12, 0, 0), (999, 12, 31, 23, 59, 59), (1000, 1, 1, 0, 0, 0), (1900, 1, 1, 0, 0, 0), (1999, 12, 31, 23, 59, 59), (2000, 2, 29, 12, 0, 0), (2024, 2, 29, 23, 59, 59), (2200, 12, 31, 0, 0, 1)]:
        for ms in (0, 1, 500, 999):
            for z in zones:
                v = datetime.datetime(y, mo, d, h, mi, s, ms * 1000, tzinfo=datetime.timezone(datetime.timedelta(minutes=z)))
                write_read(rec, conv, v, lambda t: R.written_datetime_ok(t))
    for txt in ("20240229", "20240229235959", "20240229235959.999", "20240229235959.999[-5:EST]", "20240229235959[+5.30]", "19000101000000.000[-0.30]", "22001231235959.001[+14]", "20240229235959.999[0]",
                "20240229235959.999[-3.30:NST]", "20240229235959[-9.30]", "09991231235959.999[-5:EST]", "01000615"):
        ms = R.read_datetime(txt)
        read_canon(rec, conv, txt, ms, eq=lambda a, e: isinstance(a, datetime.datetime) and a.utcoffset() == datetime.timedelta(0) and R.pydt_to_us(a) == e * 1000)
    # the form one broker sends, "[-:TZ]": the offset is that of the named US zone; several names in a row on this one
    # converter, then names that denote no zone
    for name, hours in IB_ZONES:
        txt = f"20240229235959.999[-:{name}]"
        ms = R.read_datetime(f"20240229235959.999[{hours}:{name}]")
        read_canon(rec, conv, txt, ms, eq=lambda a, e: isinstance(a, datetime.datetime) and a.utcoffset() == datetime.timedelta(0) and R.pydt_to_us(a) == e * 1000)
    for bad in ("20240229235959.999[-:XYZ]", "20240229235959.999[-:]", "20240229235959.999[-:est]"):
        must_reject(rec, conv.convert, bad, "convert", "non-value-accepted")
    for bad in ("abc", "1.2.3", "--1", "YN", "2024022", "20241301", "20240230", "20240229240000", "2024-02-29"):
        must_reject(rec, conv.convert, bad, "convert", "non-value-accepted")
    for bad in ("20240229", 20240229, 1.5, D(1), datetime.datetime(2024, 1, 1, 12, 0), object()):
        must_reject(rec, conv.unconvert, bad, "unconvert", "wrong-type-accepted")
    must_reject(rec, conv.convert, datetime.datetime(2024, 1, 1, 12, 0), "convert", "naive-accepted")


def do_time(rec, conv):
    zones = [0, -30, 330, -720, 840, -1, -210, 570]
    for (h, mi, s) in [(0, 0, 0), (23, 59, 59), (12, 0, 1)]:
        for ms in (0, 1, 500, 999):
            for z in zones:
                v = datetime.time(h, mi, s, ms * 1000, tzinfo=datetime.timezone(datetime.timedelta(minutes=z)))
                write_read(rec, conv, v, lambda t: R.written_datetime_ok(t, time_only=True))
    for txt in ("235959", "235959.999", "000001.001[-5:EST]", "115959[+5.30]", "000000.000[-0.30]", "235959.001[+14]", "033045.020[+5.30:IST]", "000000[+1:CET]", "120000.000[-3.30]"):
        ms = R.read_time(txt)
        read_canon(rec, conv, txt, ms, eq=lambda a, e: isinstance(a, datetime.time) and a.utcoffset() == datetime.timedelta(0) and R.pytime_to_us(a) == e * 1000)
    for name, hours in IB_ZONES:
        ms = R.read_time(f"120000.000[{hours}:{name}]")
        read_canon(rec, conv, f"120000.000[-:{name}]", ms, eq=lambda a, e: isinstance(a, datetime.time) and a.utcoffset() == datetime.timedelta(0) and R.pytime_to_us(a) == e * 1000)
    for bad in ("120000.000[-:XYZ]", "120000.000[-:]"):
        must_reject(rec, conv.convert, bad, "convert", "non-value-accepted")
    for bad in ("abc", "1.2.3", "--1", "YN", "23595", "240000", "236000", "12:00:00"):
        must_reject(rec, conv.convert, bad, "convert", "non-value-accepted")
    for bad in ("235959", 235959, 1.5, datetime.time(12, 0), object()):
        must_reject(rec, conv.unconvert, bad, "unconvert", "wrong-type-accepted")
    must_reject(rec, conv.convert, datetime.time(12, 0), "convert", "naive-accepted")


DISPATCH = {"Bool": do_bool, "String": do_string, "NagString": do_string, "OneOf": do_oneof, "Integer": do_integer, "Decimal": do_decimal, "DateTime": do_datetime, "Time": do_time}


def work(chunk):
    t = Tally()
    disturb_process()
    for spec in chunk:
        conv = mk(spec)
        rec = Rec(t, spec)
        none_rules(rec, conv)
        DISPATCH[spec[0]](rec, conv)
        t.count("parameterisations")
    return t


def declared_enumerations(t):
    """the enumeration converters the model classes actually carry (as declared, found through the class): every token of
    the pinned tables is written and read back by them; two neighbouring tokens run together are refused"""
    import json
    import os

    import ofxtools.models as M

    snapshot("CURRENCY.cursym")
    for key, toks in sorted(_SNAP.items()):
        clsname, attr = key.split(".")
        cls = getattr(M, clsname, None)
        conv = None
        for k in (cls.__mro__ if cls is not None else ()):
            if attr in vars(k):
                conv = vars(k)[attr]
                break
        if conv is None or not hasattr(conv, "convert"):
            continue
        t.count("evaluations")
        bad = []
        for tk in toks:
            try:
                if conv.convert(tk) != tk or conv.unconvert(tk) != tk:
                    bad.append(tk)
            except Exception:
                bad.append(tk)
        fused = []
        for a, b in zip(toks, toks[1:]):
            if (a + b) not in toks:
                try:
                    conv.convert(a + b)
                    fused.append(a + b)
                except Exception:
                    pass
        if bad:
            t.fail("C10|declared-enumeration|token-of-the-pinned-table-refused", {"spec": ["declared", key]}, f"{key}: {bad[:5]}")
        elif fused:
            t.fail("C10|declared-enumeration|fused-tokens-accepted", {"spec": ["declared", key]}, f"{key}: {fused[:5]}")
        else:
            t.outcome("declared-enum-ok")


def run(ctx):
    R.selfcheck()
    specs = all_specs()
    rot = ctx.seed % len(specs)
    tally = ctx.pmap(work, specs[rot:] + specs[:rot], chunk=1)
    declared_enumerations(tally)
    if tally.counts.get("parameterisations") != len(specs):
        raise HarnessError("not every parameterisation ran")
    need = ["W-ok", "R-ok", "X-rejected", "N-required-refused", "N-optional-none", "L-nag-kept", "L-over-rejected"]
    missing = [o for o in need if o not in tally.outcomes]
    if missing:
        vacuous(tally, f"vacuous: outcomes never observed {missing}")
    tally.sample({"spec": "Decimal(2;required=False)", "read": "+1,505", "expected": "1.50 (half-even), canonical text '1.50'"})
    tally.sample({"spec": "Integer(2;required=True)", "limits": "99 accepted, 100 and -100 rejected"})
    tally.sample({"spec": "NagString(1)", "over-long": "'aa' warns OFXTypeWarning and is kept"})
    cov = {
        "evaluations": tally.counts.get("evaluations", 0),
        "distinct_nontrivial": tally.counts.get("evaluations", 0),
        "rule": f"{len(specs)} parameterisations (Bool; String/NagString length None,1,2,5; OneOf of 3 token sets and of the library's currency / language / country tables; Integer length None,1,2,3; Decimal scale "
        "None,0,1,2,4; DateTime; Time; each x required x bare/ListElement) x whole small domain: all strings of length <= limit+1 over {a,&,<,e-acute,inner blank}; "
        "all integers in (-10^n,10^n) and the first values beyond; all decimals m*10^-s |m|<=300 s<=4 with texts using . and , signs, leading zeros; "
        "date-times/times over 6 zones x boundary values; entity texts; non-values; wrong Python types; None; + every enumeration converter declared by a model class against the pinned token tables. Each (parameterisation, value/text, oracle) counted once",
        "parameterisations": len(specs),
        "exhaustive": True,
        "distinct_outcomes": len(tally.outcomes),
    }
    return {"tally": tally, "coverage": cov, "assumptions": [
        "string alphabet cannot spell an entity, so converter-level write-then-read of strings is the identity (escaping is the wire layer's job, C01/C11)",
        "Python-isms (1_0, padded or non-ASCII digits, bool for int, exponent/NaN texts) are not in the alphabets",
        "'' for an optional element is not pinned down and not checked"]}


def replay(ctx, case):
    spec = tuple(tuple(x) if isinstance(x, list) else x for x in case["spec"])
    t = Tally()
    if spec[0] == "declared":
        declared_enumerations(t)
        for sig, (n, c, d) in sorted(t.fails.items()):
            print(" ", sig, "|", d)
        return bool(t.fails)
    conv = mk(spec)
    rec = Rec(t, spec)
    none_rules(rec, conv)
    DISPATCH[spec[0]](rec, conv)
    for sig, (n, c, d) in sorted(t.fails.items()):
        print(" ", sig, "|", d)
    return bool(t.fails)
