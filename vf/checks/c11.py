"""C11  Everything the serializer writes is lexically valid OFX for its declared type.

every class x every element child x a value alphabet aimed at lexical trouble, set through the keyword constructor on
the smallest instance (a refusal at construction, to_etree or serialize is an acceptable outcome) x the 6 wire forms.
Oracle: every leaf text of to_etree() matches its type's lexical rule; on the wire the strict reference reader finds
the same data, no raw '<' and no '&' that does not start an entity.
"""
import datetime
import decimal
import warnings

from vf import ref_schema as S
from vf import ref_sgml
from vf import ref_types as R
from vf import universe as U
from vf.checks.c01 import FORMS, client, empty_aggregates
from vf.core import disturb_process
from vf.core import vacuous, HarnessError, Tally

LEVEL = "exploration"
D = decimal.Decimal


def tz(m):
    return datetime.timezone(datetime.timedelta(minutes=m))


def trouble_values(c):
    """[(value class, value)]"""
    t = c.typ
    if t == "Bool":
        # the strings are texts a tolerant reader might accept (the pinned tree refuses them at construction): whatever
        # is accepted must still be WRITTEN as Y or N - by this instance and by every later one
        return [("alias-text", "TRUE"), ("alias-text", "FALSE"), ("alias-text", "YES"), ("alias-text", "no"), ("alias-text", "1"), ("alias-text", "y"), ("true", True), ("false", False), ("text-Y", "Y"), ("text-N", "N")]
    if t == "Integer":
        n = c.params
        top = 10**n - 1 if n is not None else 10**30
        return [("zero", 0), ("negative", -1), ("limit", top), ("negative-limit", -top), ("bool-as-int", True)]
    if t == "Decimal":
        vals = [("zero", D("0")), ("negative-zero", D("-0")), ("positive-exponent", D("1E+2")), ("tiny-exponent", D("1E-7")),
                ("normalized", D(100).normalize()), ("huge-exponent", D("1E+30")), ("plain", D("1.50")), ("nan", D("NaN")), ("snan", D("sNaN")),
                ("infinity", D("Infinity")), ("negative-infinity", D("-Infinity")), ("29-digits", D("12345678901234567890123456789")),
                ("30-digits-fraction", D("123456789012345678901234567890.25")), ("negative-zero-scaled", D("-0.00")), ("small-negative", D("-0.000001"))]
        # amounts handed over as float / int / tuple (Decimal's other constructors): the non-finite ones must be refused too
        vals += [("float-nan", float("nan")), ("float-infinity", float("inf")), ("float-negative-infinity", float("-inf")), ("float-tiny", 1e-7), ("float-huge", 1e30),
                 ("float-plain", 0.1), ("int", 12), ("tuple-infinity", (0, (0,), "F")), ("tuple-nan", (1, (), "n")), ("tuple-plain", (1, (1, 5, 0), -2))]
        return vals
    if t in ("String", "NagString"):
        n = c.params
        out = []
        for k, s in (("markup", "A&B<c>\"'"), ("non-ascii", "é€ ü"), ("at-limit", "x" * (n if n is not None else 300)), ("cdata-end", "a]]>b"),
                     ("entity-text", "&amp;"), ("cdata-text", "<![CDATA[x]]>"), ("ampersand-word-semicolon", "AT&T; x&123;y &_; &#xyz;"),
                     ("value-spelling-entities", "&amp;lt; &amp;#38; &amp;amp; &amp;nbsp;"), ("markup-at-limit", ("<&" * (n if n is not None else 20))[: (n if n is not None else 40)])):
            v = U._cut(s, n)
            out.append((k, v))
        if n is not None and n >= 3:
            # over the limit only through white space at either end (what a padded fixed-width field looks like)
            out += [("padded-over-limit", "x" * (n - 2) + "    "), ("padded-over-limit", "  " + "x" * n), ("padded-over-limit", "x" * n + "\t"), ("padded-over-limit", "x" * n + "\u00a0")]
        return out
    if t == "OneOf":
        own = [str(x) for x in c.params]
        return [("token", tok) for tok in c.params] + [("token-of-another-enumeration", tok) for tok in FOREIGN_TOKENS if tok not in own]
    if t == "DateTime":
        out = []
        for k, m in (("utc", 0), ("neg-frac-hour0", -30), ("pos-frac", 345), ("plus14", 840), ("minus12", -720), ("single-digit-minutes", 65), ("single-digit-minutes", -186)):
            out.append((k, datetime.datetime(2024, 2, 29, 23, 59, 59, 999600, tzinfo=tz(m))))
        out.append(("carry-year", datetime.datetime(1999, 12, 31, 23, 59, 59, 999999, tzinfo=tz(-30))))
        out.append(("sub-ms", datetime.datetime(2000, 1, 1, 0, 0, 0, 499, tzinfo=tz(330))))
        out.append(("year-below-1000", datetime.datetime(999, 12, 31, 23, 59, 59, 999600, tzinfo=tz(-30))))
        out.append(("year-below-1000", datetime.datetime(100, 6, 15, 12, 0, 0, 0, tzinfo=tz(0))))
        return out
    if t == "Time":
        out = []
        for k, m in (("utc", 0), ("neg-frac-hour0", -30), ("pos-frac", 345), ("plus14", 840), ("minus12", -720), ("single-digit-minutes", 65), ("single-digit-minutes", -186)):
            out.append((k, datetime.time(23, 59, 59, 999600, tzinfo=tz(m))))
        out.append(("sub-ms", datetime.time(0, 0, 0, 499, tzinfo=tz(330))))
        return out
    return []


# tokens that other enumerations declare; prime() has each of them accepted legitimately first, so that whatever the
# library remembers about accepted tokens is in place when they are offered to an enumeration that does not declare them
FOREIGN_TOKENS = ["INFO", "USD", "CHECKING", "ENG", "CREDIT", "USA", "Y", "ACTIVE"]
_primed = []


def prime():
    if _primed:
        return
    _primed.append(True)
    disturb_process()
    for tok in FOREIGN_TOKENS:
        for cls in S.all_classes():
            c = next((c for c in S.children(cls) if c.kind == "elem" and c.typ == "OneOf" and tok in [str(x) for x in c.params]), None)
            if c is not None:
                inst = U.build(U.min_with(cls, c, tok))
                inst.to_etree()
                break


_PINNED = {}


def _pinned_tokens(c):
    """tokens of the pinned tree's table (vf/ref_enums.json) that shares the most tokens with this element's declared ones"""
    import json
    import os

    if not _PINNED:
        with open(os.path.join(os.path.dirname(os.path.dirname(os.path.abspath(__file__))), "ref_enums.json")) as f:
            for k, v in json.load(f).items():
                _PINNED.setdefault(frozenset(v), v)
    own = {str(x) for x in c.params}
    best = max(_PINNED, key=lambda fs: len(fs & own), default=None)
    return set(best) if best is not None and len(best & own) >= 0.8 * len(own) else None


def leaf_ok(c, text):
    t = c.typ
    if not isinstance(text, str) or text == "":
        return "empty or non-text"
    if t == "Bool":
        return None if text in ("Y", "N") else "not Y/N"
    if t == "Integer":
        s = text[1:] if text[:1] in "+-" else text
        if not R._digits(s):
            return "not [sign] digits"
        if c.params is not None and len(s.lstrip("0") or "0") > c.params:
            return f"more than {c.params} digits"
        return None
    if t == "Decimal":
        return None if R.decimal_lexical_ok(text) else "not plain decimal notation"
    if t == "OneOf":
        if text not in [str(x) for x in c.params]:
            return "not a declared token"
        pinned = _pinned_tokens(c)
        if pinned and text not in pinned:
            widths = {len(x) for x in pinned}
            if any(text == a + b for a in pinned for b in pinned if text.startswith(a)):
                return "two tokens of the pinned table run together"
            if len(widths) == 1 and len(text) > next(iter(widths)) and (text[: next(iter(widths))] in pinned or text[-next(iter(widths)) :] in pinned):
                return "a token of a fixed-width code table run together with another one"
        return None
    if t == "String":
        return None if c.params is None or len(text) <= c.params else f"longer than {c.params}"
    if t == "NagString":
        return None
    if t == "DateTime":
        return None if R.written_datetime_ok(text) else "not YYYYMMDDHHMMSS.XXX[offset:name]"
    if t == "Time":
        return None if R.written_datetime_ok(text, time_only=True) else "not HHMMSS.XXX[offset:name]"
    return "unknown type"


def walk_tree(t, elem, cls, path, sigbase, case, found):
    """check every leaf of the element tree written by to_etree() against the class schema"""
    chs = S.children(cls)
    bytag = {}
    for c in chs:
        if c.kind == "elem":
            bytag[S.tag_of(c.name)] = c
        elif c.kind == "lelem":
            bytag[c.name.upper()] = c
        elif c.kind in ("sub", "lagg"):
            bytag[c.target.__name__] = c
    for ch in elem:
        c = bytag.get(ch.tag)
        if c is None:
            t.fail(f"{sigbase}|to_etree|undeclared-tag-written", case, f"{path}/{ch.tag}")
            continue
        if c.kind in ("sub", "lagg"):
            walk_tree(t, ch, c.target, f"{path}/{ch.tag}", sigbase, case, found)
        else:
            if len(ch):
                t.fail(f"{sigbase}|to_etree|element-with-children", case, f"{path}/{ch.tag}")
                continue
            p = leaf_ok(c, ch.text)
            found.append((f"{path}/{ch.tag}", ch.text))
            if p:
                t.fail(f"{sigbase}|to_etree|{c.typ}-lexically-invalid", case, f"{path}/{ch.tag} = {ch.text!r}: {p}")


def body_of(data):
    text = data.decode("utf_8")
    if text.startswith("<?xml"):
        i = text.index("?>", text.index("<?OFX")) + 2
    else:
        i = text.index("<", text.index("NEWFILEUID:"))
    return text[i:]


def entity_ok(data):
    i = 0
    while True:
        i = data.find("&", i)
        if i < 0:
            return True
        j = data.find(";", i)
        if j < 0 or j - i > 10:
            return False
        name = data[i + 1 : j]
        if not (name in ("amp", "lt", "gt", "quot", "apos", "nbsp") or (name.startswith("#") and (name[1:].isdigit() or (name[1:2] in "xX" and all(ch in "0123456789abcdefABCDEF" for ch in name[2:]) and len(name) > 2)))):
            return False
        i = j


def leaves(sterm, out):
    tag, body = sterm
    if isinstance(body, str):
        out.append((tag, body))
    else:
        for ch in body:
            leaves(ch, out)
    return out


def check_value(t, cl, cls, c, vclass, value, setter=None):
    clsname = cls.__name__
    sigbase = f"C11|{c.typ}|{vclass}"
    case = {"cls": clsname, "child": c.name, "vclass": vclass, "value": value}
    t.count("evaluations")
    try:
        with warnings.catch_warnings():
            warnings.simplefilter("ignore")
            if setter is None:
                term = U.min_with(cls, c, value)
                inst = U.build(term)
            else:
                term, inst = setter()
    except Exception:
        t.outcome("refused-at-construction")
        t.count("refused")
        return
    try:
        with warnings.catch_warnings():
            warnings.simplefilter("ignore")
            tree = inst.to_etree()
    except Exception:
        t.outcome("refused-at-to_etree")
        t.count("refused")
        return
    found = []
    before = len(t.fails)
    walk_tree(t, tree, cls, clsname, sigbase, case, found)
    if len(t.fails) > before:
        return
    t.outcome("written-" + c.typ)
    skip_unclosed = bool(empty_aggregates(S.inst_to_term(inst)))
    for fname, major, pretty, close in FORMS:
        if not close and skip_unclosed:
            t.count("skipped-unclosed-empty-aggregate")
            continue
        t.count("evaluations")
        try:
            with warnings.catch_warnings():
                warnings.simplefilter("ignore")
                data = cl.serialize(inst, version=102 if major == 1 else 203, prettyprint=pretty, close_elements=close)
        except Exception:
            t.outcome("refused-at-serialize")
            continue
        try:
            body = body_of(data)
            toks = ref_sgml.scan(body)
            bad = [v for k, v in toks if k == ref_sgml.TEXT and not entity_ok(v)]
            if bad:
                t.fail(f"{sigbase}|{fname}|raw-ampersand-on-the-wire", dict(case, form=fname), repr(bad[0][:80]))
                continue
            st = ref_sgml.build(body)
        except ref_sgml.RefSyntaxError as e:
            t.fail(f"{sigbase}|{fname}|wire-not-well-formed", dict(case, form=fname), f"{e}: {data[-300:]!r}")
            continue
        got = [(tag, R.unescape(d)) for tag, d in leaves(st, [])]
        exp = [(p.rsplit("/", 1)[1], txt.strip(" \t\r\n")) for p, txt in found]
        if got != exp:
            diff = next(((a, b) for a, b in zip(got, exp) if a != b), (len(got), len(exp)))
            t.fail(f"{sigbase}|{fname}|data-altered-on-the-wire", dict(case, form=fname), f"{diff}")
            continue
        t.outcome("wire-ok-" + fname)


def elementlist_probes(t, cl, cls):
    """members added through the list API after construction are validated only when written: they must be refused
    or written validly"""
    le = next((c for c in S.children(cls) if c.kind == "lelem"), None)
    if le is None:
        return
    n = le.params if isinstance(le.params, int) else None
    bads = {"OneOf": ["klingon", 5], "String": ["x" * ((n or 10) + 1), 5] if n else [5], "NagString": [5],
            "Integer": ["MMXXIV", str(10 ** (n or 4)), 10 ** n if n else "x"],
            "Bool": ["maybe", 1], "Decimal": ["abc"], "DateTime": ["yesterday"], "Time": ["noon"]}.get(le.typ, [])
    for how in ("append", "insert", "extend", "iadd"):
        for bad in bads:
            def setter(bad=bad, how=how):
                term = U.min_with(cls, le)
                inst = U.build(term)
                if how == "append":
                    inst.append(bad)
                elif how == "insert":
                    inst.insert(0, bad)
                elif how == "extend":
                    inst.extend([bad])
                else:
                    inst += [bad]
                return term, inst
            check_value_list(t, cl, cls, le, how, bad, setter)


def check_value_list(t, cl, cls, le, how, bad, setter):
    t.count("evaluations")
    case = {"cls": cls.__name__, "child": le.name, "vclass": "list-api-" + how, "value": bad}
    try:
        term, inst = setter()
        tree = inst.to_etree()
    except Exception:
        t.outcome("refused-list-member")
        return
    for ch in tree:
        if ch.tag == le.name.upper():
            p = leaf_ok(le, ch.text)
            if p:
                t.fail(f"C11|{cls.__name__}|{le.typ}|member-added-via-list-api|written-invalid", case, f"{ch.tag} = {ch.text!r}: {p}")
                return
    t.outcome("list-member-written-valid")


def work(chunk):
    t = Tally()
    cl = client()
    prime()
    for clsname in chunk:
        cls = U.cls_by_name(clsname)
        for c in S.children(cls):
            if c.kind != "elem":
                continue
            t.count("elements")
            for vclass, v in trouble_values(c):
                check_value(t, cl, cls, c, vclass, v)
                t.count("values")
        elementlist_probes(t, cl, cls)
        t.count("classes")
    return t


def run(ctx):
    classes = S.all_classes()
    names = [c.__name__ for c in classes]
    rot = ctx.seed % len(names)
    tally = ctx.pmap(work, names[rot:] + names[:rot])
    if tally.counts.get("elements", 0) < 1200:
        vacuous(tally, f"vacuous: {tally.counts}")
    if not tally.fails:
        for o in ("written-Decimal", "written-String", "written-DateTime", "wire-ok-v1-unclosed", "wire-ok-v2-xml", "refused-list-member"):
            if o not in tally.outcomes:
                vacuous(tally, f"vacuous: {o} never observed")
    tally.sample({"cls": "STMTTRN", "child": "trnamt", "value": "Decimal('1E+2')", "rule": "plain decimal notation or refusal"})
    tally.sample({"cls": "SONRQ", "child": "userpass", "value": "A&B<c>\"'", "forms": [f[0] for f in FORMS]})
    cov = {
        "evaluations": tally.counts.get("evaluations", 0),
        "distinct_nontrivial": tally.counts.get("values", 0),
        "rule": "every class x every data element x trouble values of its type (Decimal: zeros, +/- exponents, normalize(), NaN, sNaN, +-Infinity (as Decimal, float and tuple), floats, 29 and 30 significant "
        "digits; Integer: 0, -1, +-limit, True; String: markup, non-ASCII, CDATA delimiters, entity text, '&' followed by a word and ';', values spelling entities, at the limit, over it through leading / trailing white space; DateTime/Time: 7 zones (incl. offsets with 5 and 6 minutes) with sub-ms parts and carries; "
        "Bool; every enumeration token (none of them two codes of a pinned table run together), and 8 tokens of other enumerations - accepted there first - which must be refused) set by keyword on the smallest instance; leaf texts of to_etree() checked against the lexical rule, then all 6 wire forms read by the "
        "strict reference reader (well-formed, entities only, same data); ElementList classes: invalid members added through append/insert/extend/+= must be refused when written; "
        "distinct_nontrivial = (class, element, value) triples",
        "elements": tally.counts.get("elements", 0),
        "refused": tally.counts.get("refused", 0),
        "exhaustive": True,
    }
    return {"tally": tally, "coverage": cov, "assumptions": [
        "a refusal at construction, to_etree() or serialize() is an acceptable outcome",
        "NagString (warn-only) is not held to its length limit; dates 1900-2200",
        "instances containing an empty aggregate are not checked in the end-tag-less forms (known C01 finding)"]}


def replay(ctx, case):
    t = Tally()
    cl = client()
    prime()
    cls = U.cls_by_name(case["cls"])
    c = S.child_map(cls)[case["child"]]
    if str(case.get("vclass", "")).startswith("list-api"):
        elementlist_probes(t, cl, cls)
    else:
        for vclass, v in trouble_values(c):
            if vclass == case["vclass"]:
                check_value(t, cl, cls, c, vclass, v)
    for sig, (n, c_, d) in sorted(t.fails.items()):
        print(" ", sig, "|", d)
    return bool(t.fails)
