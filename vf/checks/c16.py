"""C16  Shortcuts and flat attribute access agree with the full path; misses are clean.

classes x instance shapes {MIN, MAXS, each optional sub-aggregate toggled, repeated children 0/1/2} x every attribute
name declared anywhere in the class's non-repeated descendant structure + undefined names; copy / deepcopy / pickle;
the documented shortcuts on OFX trees composed from every sequence of <= 3 wrappers.
"""
import copy
import itertools
import pickle
import warnings

from vf import ref_schema as S
from vf import universe as U
from vf.checks import c06
from vf.core import disturb_process
from vf.core import vacuous, HarnessError, Tally

LEVEL = "exploration"
UNDEFINED = ["nonesuch", "__setstate__", "_x", "__deepcopy__", "stmtrs_", "STATUS"]


def structure(cls, path=(), seen=None):
    """declared non-repeated descendant aggregates: [(path of sub-aggregate attrs, class)] (root excluded)"""
    out = []
    for c in S.children(cls):
        if c.kind == "sub":
            p = path + (c.name,)
            out.append((p, c.target))
            out += structure(c.target, p)
    return out


def defined_names(cls):
    """name -> list of paths of descendant aggregates that declare it (as element or sub-aggregate)"""
    names = {}
    for p, k in structure(cls):
        for c in S.children(k):
            if c.kind in ("elem", "sub"):
                names.setdefault(c.name, []).append(p)
    return names


def walk(inst, path):
    """follow sub-aggregate attributes through the instance's own storage; None if one is absent"""
    cur = inst
    for a in path:
        cur = vars(cur).get(a)
        if cur is None:
            return None
    return cur


def falsify(term):
    """the term with every Bool False, every Integer 0 and every Decimal zero (values a truthiness test takes for absent)"""
    import decimal

    name, kw, members = term
    cm = S.child_map(U.cls_by_name(name))
    kw2 = {}
    for k, v in kw.items():
        c = cm[k]
        if S._isterm(v):
            kw2[k] = falsify(v)
        elif c.kind == "elem" and c.typ == "Bool":
            kw2[k] = False
        elif c.kind == "elem" and c.typ == "Integer":
            kw2[k] = 0
        elif c.kind == "elem" and c.typ == "Decimal":
            kw2[k] = decimal.Decimal("0.00")
        else:
            kw2[k] = v
    return (name, kw2, [falsify(m) if S._isterm(m) else m for m in members])


def shapes(cls, thorough):
    yield "MIN", U.MIN(cls)
    yield "MAXS", U.MAXS(cls)
    yield "MAXS-falsy-values", falsify(U.MAXS(cls))
    mx = U.MAXS(cls)
    dims = U.dimensions(cls, mx, ("MIN", "MAXS") if thorough else ("MIN",))
    for label, states in dims:
        c = S.child_map(cls).get(label)
        issub = c is not None and c.kind == "sub"
        if not (issub or label.startswith("#") or label.startswith("group:")):
            continue
        for slabel, f in states:
            yield slabel, f(mx)
    if thorough:
        yield "MAXD", U.MAXD(cls)


def present_holders(inst, out=None, path=()):
    """name -> [(path, holder instance)] over the non-repeated descendant aggregates PRESENT in this instance"""
    out = {} if out is None else out
    for c in S.children(type(inst)):
        if c.kind != "sub":
            continue
        sub = vars(inst).get(c.name)
        if sub is None:
            continue
        p = path + (c.name,)
        for cc in S.children(type(sub)):
            if cc.kind in ("elem", "sub"):
                out.setdefault(cc.name, []).append((p, sub))
        present_holders(sub, out, p)
    return out


def check_lookup(t, clsname, shape, inst, names, own):
    present = present_holders(inst)
    for name, paths in names.items():
        if name in own or hasattr(type(inst), name):
            continue  # the root's own attribute / a method or property of the class wins: not a proxy look-up
        holders = present.get(name, [])
        if len(holders) > 1:
            continue  # several present descendants define it: which one answers is not pinned down
        t.count("evaluations")
        t.count("lookups")
        case = {"cls": clsname, "shape": shape, "name": name}
        try:
            got = getattr(inst, name)
            err = None
        except AttributeError:
            got, err = None, "AttributeError"
        except Exception as e:
            t.fail(f"C16|{clsname}|getattr|raises-{type(e).__name__}", case, f"getattr({clsname}, {name!r}) on shape {shape}: {type(e).__name__}: {e}")
            continue
        if not holders:
            # no present descendant defines it: a clean miss (or None) is all that is asked
            if err is None and got is not None:
                t.fail(f"C16|{clsname}|getattr|value-from-nowhere", case, f"{name}: no present descendant defines it but got {got!r}")
            else:
                t.outcome("absent-clean")
            continue
        hpath, holder = holders[0]
        stored = vars(holder).get(name)
        if err is not None:
            if stored is None:
                # the defining aggregate is there and holds None for it: the value stored there is None, not a miss
                t.fail(f"C16|{clsname}|getattr|unset-name-of-present-holder-not-readable", case, f"{name} is declared by the present {'/'.join(hpath)} and unset (None) there, but getattr raises AttributeError (shape {shape})")
                continue
            t.fail(f"C16|{clsname}|getattr|defined-name-not-readable", case, f"{name} is stored at {'/'.join(hpath)} = {stored!r} but getattr raises AttributeError (shape {shape})")
            continue
        if got is not stored:
            t.fail(f"C16|{clsname}|getattr|not-the-stored-object", case, f"{name}: got {got!r}, stored at {'/'.join(hpath)}: {stored!r}")
            continue
        t.outcome("proxy-ok")


def check_misses(t, clsname, shape, inst):
    for name in UNDEFINED:
        t.count("evaluations")
        case = {"cls": clsname, "shape": shape, "name": name}
        try:
            getattr(inst, name)
            t.fail(f"C16|{clsname}|miss|undefined-name-readable", case, name)
            continue
        except AttributeError:
            pass
        except Exception as e:
            t.fail(f"C16|{clsname}|miss|raises-{type(e).__name__}", case, f"getattr({clsname}, {name!r}) raises {type(e).__name__} on shape {shape}")
            continue
        try:
            ok = hasattr(inst, name) is False and getattr(inst, name, 42) == 42
        except Exception as e:
            ok = False
        if not ok:
            t.fail(f"C16|{clsname}|miss|hasattr-or-default-broken", case, name)
        else:
            t.outcome("miss-clean")


def check_copies(t, clsname, shape, inst, origin="built"):
    if origin == "built":
        # the same model as a reader produces it (values converted from text, e.g. date-times carrying the library's own
        # UTC object) must be as copyable as the one built from keywords
        try:
            with warnings.catch_warnings():
                warnings.simplefilter("ignore")
                parsed = type(inst).from_etree(inst.to_etree())
        except Exception:
            parsed = None  # own output refused: C01 / C13 territory
        if parsed is not None:
            check_copies(t, clsname, shape, parsed, "read")
    orig = S.inst_to_term(inst)
    for how, fn in (("copy", copy.copy), ("deepcopy", copy.deepcopy), ("pickle", lambda x: pickle.loads(pickle.dumps(x)))):
        t.count("evaluations")
        case = {"cls": clsname, "shape": shape, "how": how, "origin": origin}
        try:
            dup = fn(inst)
        except Exception as e:
            t.fail(f"C16|{clsname}|{how}|raises-{type(e).__name__}", case, f"{how}({clsname} {shape}): {type(e).__name__}: {str(e)[:150]}")
            continue
        if type(dup) is not type(inst):
            t.fail(f"C16|{clsname}|{how}|wrong-type", case, type(dup).__name__)
            continue
        d = S.diff_terms(orig, S.inst_to_term(dup))
        if d:
            t.fail(f"C16|{clsname}|{how}|model-differs", case, d)
            continue
        if how != "copy" and dup is inst:
            t.fail(f"C16|{clsname}|{how}|same-object", case, "")
            continue
        t.outcome(how + "-ok")


ALIASES = {
    "STMTRS": {"account": "bankacctfrom", "transactions": "banktranlist", "balance": "ledgerbal"},
    "CCSTMTRS": {"account": "ccacctfrom", "transactions": "banktranlist", "balance": "ledgerbal"},
    "INVSTMTRS": {"account": "invacctfrom", "transactions": "invtranlist", "positions": "invposlist", "balances": "invbal"},
    "STMTTRNRS": {"statement": "stmtrs"},
    "CCSTMTTRNRS": {"statement": "ccstmtrs"},
    "CCSTMTENDTRNRS": {"statement": "ccstmtendrs"},
    "INVSTMTTRNRS": {"statement": "invstmtrs"},
    "PROFTRNRS": {"profile": "profrs"},
}
ORIGCUR = ["STMTTRN", "STPCHKNUM", "CLOSING", "INVBUY", "INVSELL", "INCOME", "INVEXPENSE", "MARGININTEREST", "REINVEST", "RETOFCAP", "SPLIT"]


def check_aliases(t, clsname, shape, inst):
    store = vars(inst)
    for alias, attr in ALIASES.get(clsname, {}).items():
        t.count("evaluations")
        case = {"cls": clsname, "shape": shape, "name": alias}
        try:
            got = getattr(inst, alias)
        except Exception as e:
            t.fail(f"C16|{clsname}|alias:{alias}|raises-{type(e).__name__}", case, str(e))
            continue
        if got is not store.get(attr):
            t.fail(f"C16|{clsname}|alias:{alias}|not-the-stored-object", case, f"{alias} -> {got!r}, {attr} holds {store.get(attr)!r}")
        else:
            t.outcome("alias-ok")
    if clsname == "SONRS":
        fi = store.get("fi")
        for alias in ("org", "fid"):
            t.count("evaluations")
            case = {"cls": clsname, "shape": shape, "name": alias}
            try:
                got = getattr(inst, alias)
            except AttributeError:
                got = None
            except Exception as e:
                t.fail(f"C16|SONRS|alias:{alias}|raises-{type(e).__name__}", case, str(e))
                continue
            exp = vars(fi).get(alias) if fi is not None else None
            if got is not exp and got != exp:
                t.fail(f"C16|SONRS|alias:{alias}|wrong-value", case, f"{got!r} != {exp!r}")
            elif fi is not None and exp is not None and got is not exp:
                t.fail(f"C16|SONRS|alias:{alias}|not-the-stored-object", case, f"{got!r}")
            else:
                t.outcome("alias-ok")
    if clsname in ORIGCUR:
        cur = store.get("currency") if store.get("currency") is not None else store.get("origcurrency")
        exp = {"curtype": type(cur).__name__ if cur is not None else None, "cursym": vars(cur).get("cursym") if cur is not None else None, "currate": vars(cur).get("currate") if cur is not None else None}
        for alias, e in exp.items():
            t.count("evaluations")
            case = {"cls": clsname, "shape": shape, "name": alias}
            try:
                got = getattr(inst, alias)
            except AttributeError:
                got = None
            except Exception as ex:
                t.fail(f"C16|{clsname}|alias:{alias}|raises-{type(ex).__name__}", case, str(ex))
                continue
            if got != e or (e is not None and alias != "curtype" and got is not e):
                t.fail(f"C16|{clsname}|alias:{alias}|wrong-value", case, f"{got!r} != {e!r}")
            else:
                t.outcome("alias-ok")


def work(chunk):
    t = Tally()
    disturb_process()
    for clsname, thorough in chunk:
        cls = U.cls_by_name(clsname)
        names = defined_names(cls)
        own = {c.name for c in S.children(cls)}
        for shape, term in shapes(cls, thorough):
            try:
                with warnings.catch_warnings():
                    warnings.simplefilter("ignore")
                    inst = U.build(term)
            except Exception as e:
                if shape in ("MIN", "MAXS"):
                    t.fail(f"C16|{clsname}|baseline|cannot-construct-{type(e).__name__}", {"cls": clsname, "shape": shape}, f"{type(e).__name__}: {str(e)[:150]}")
                t.count("refused-by-constructor")
                continue
            t.count("instances")
            check_lookup(t, clsname, shape, inst, names, own)
            check_misses(t, clsname, shape, inst)
            check_copies(t, clsname, shape, inst)
            check_aliases(t, clsname, shape, inst)
            if shape == "MAXS":
                # once more with the library's loggers at DEBUG
                with c06.verbose_logging({"loglevel": "DEBUG"}):
                    check_lookup(t, clsname, shape + "+logging-at-DEBUG", inst, names, own)
                    check_misses(t, clsname, shape + "+logging-at-DEBUG", inst)
                    check_copies(t, clsname, shape + "+logging-at-DEBUG", inst)
        t.count("classes")
    return t


# ---------------------------------------------------------------------------------------------
# OFX-level shortcuts
# ---------------------------------------------------------------------------------------------
KINDS = {
    "rq": [("stmt", "STMTTRNRQ", "stmtrq", "bankmsgsrqv1"), ("stmtend", "STMTENDTRNRQ", "stmtendrq", "bankmsgsrqv1"), ("cc", "CCSTMTTRNRQ", "ccstmtrq", "creditcardmsgsrqv1"),
           ("ccend", "CCSTMTENDTRNRQ", "ccstmtendrq", "creditcardmsgsrqv1"), ("inv", "INVSTMTTRNRQ", "invstmtrq", "invstmtmsgsrqv1"), ("mail", "BANKMAILTRNRQ", None, "bankmsgsrqv1"),
           ("invmail", "INVMAILTRNRQ", None, "invstmtmsgsrqv1")],
    "rs": [("stmt", "STMTTRNRS", "stmtrs", "bankmsgsrsv1"), ("stmtend", "STMTENDTRNRS", "stmtendrs", "bankmsgsrsv1"), ("cc", "CCSTMTTRNRS", "ccstmtrs", "creditcardmsgsrsv1"),
           ("ccend", "CCSTMTENDTRNRS", "ccstmtendrs", "creditcardmsgsrsv1"), ("inv", "INVSTMTTRNRS", "invstmtrs", "invstmtmsgsrsv1"), ("mail", "BANKMAILTRNRS", None, "bankmsgsrsv1"),
           ("invmail", "INVMAILTRNRS", None, "invstmtmsgsrsv1"), ("stmt-empty", "STMTTRNRS", "stmtrs", "bankmsgsrsv1"),
           ("inv-empty", "INVSTMTTRNRS", "invstmtrs", "invstmtmsgsrsv1"), ("cc-empty", "CCSTMTTRNRS", "ccstmtrs", "creditcardmsgsrsv1")],
}
MSGSET_ORDER = {"rq": ["bankmsgsrqv1", "creditcardmsgsrqv1", "invstmtmsgsrqv1"], "rs": ["bankmsgsrsv1", "creditcardmsgsrsv1", "invstmtmsgsrsv1"]}


def ofx_work(chunk):
    import ofxtools.models as M

    t = Tally()
    for side, seq in chunk:
        table = {k[0]: k for k in KINDS[side]}
        wrappers = {}
        order = []
        for i, kind in enumerate(seq):
            _, wcls, sattr, mset = table[kind]
            c = U.cls_by_name(wcls)
            term = U.MIN(c)
            if side == "rs" and sattr and not kind.endswith("-empty"):
                sc = S.child_map(c)[sattr]
                term = U.min_with(c, sc)
            term = (term[0], dict(term[1], trnuid=f"T{i}"), term[2])
            w = U.build(term)
            wrappers.setdefault(mset, []).append(w)
            order.append((mset, w, sattr))
        kwargs = {}
        for mset, ws in wrappers.items():
            kwargs[mset] = getattr(M, mset.upper())(*ws)
        son = "signonmsgsrqv1" if side == "rq" else "signonmsgsrsv1"
        kwargs[son] = U.build(U.MIN(getattr(M, son.upper())))
        ofx = M.OFX(**kwargs)
        case = {"side": side, "seq": list(seq)}
        t.count("evaluations")
        t.count("ofx-trees")
        exp = []
        for mset in MSGSET_ORDER[side]:
            for (ms, w, sattr) in order:
                if ms == mset and sattr is not None:
                    st = vars(w).get(sattr)
                    if st is not None:
                        exp.append(st)
        try:
            got = ofx.statements
        except Exception as e:
            t.fail(f"C16|OFX|statements|raises-{type(e).__name__}", case, str(e))
            continue
        if len(got) != len(exp) or any(a is not b for a, b in zip(got, exp)):
            missing = [type(x).__name__ for x in exp if not any(x is y for y in got)]
            t.fail(f"C16|OFX|statements|{side}|wrong-list" + ("|missing-" + "+".join(sorted(set(missing))) if missing else "|order-or-duplicates"), case,
                   f"seq {seq}: got {[type(x).__name__ for x in got]}, expected {[type(x).__name__ for x in exp]}")
        else:
            t.outcome("ofx-statements-ok")
        for mset, ws in wrappers.items():
            t.count("evaluations")
            m = vars(ofx)[mset]
            e2 = [vars(w).get(sattr) for (ms, w, sattr) in order if ms == mset and sattr is not None and vars(w).get(sattr) is not None]
            try:
                g2 = m.statements
            except Exception as e:
                t.fail(f"C16|{mset.upper()}|statements|raises-{type(e).__name__}", case, str(e))
                continue
            if len(g2) != len(e2) or any(a is not b for a, b in zip(g2, e2)):
                missing = [type(x).__name__ for x in e2 if not any(x is y for y in g2)]
                t.fail(f"C16|{mset.upper()}|statements|wrong-list" + ("|missing-" + "+".join(sorted(set(missing))) if missing else "|order-or-duplicates"), case,
                       f"seq {seq}: got {[type(x).__name__ for x in g2]}, expected {[type(x).__name__ for x in e2]}")
            else:
                t.outcome("msgset-statements-ok")
        # the shortcuts walk the tree as it is NOW: a wrapper appended to / removed from a message set after a first read
        for mset, ws in wrappers.items():
            src = next(((w, sattr) for (ms, w, sattr) in order if ms == mset and sattr is not None and vars(w).get(sattr) is not None), None)
            if src is None:
                continue
            t.count("evaluations")
            import copy as _copy

            m = vars(ofx)[mset]
            try:
                extra = _copy.deepcopy(src[0])
                before = list(ofx.statements)
                m.append(extra)
                after = ofx.statements
                ok = len(after) == len(before) + 1 and any(x is vars(extra)[src[1]] for x in after) and any(x is vars(extra)[src[1]] for x in m.statements)
                m.pop()
                again = ofx.statements
                ok = ok and len(again) == len(before) and all(a is b for a, b in zip(again, before))
            except Exception as e:
                t.fail(f"C16|OFX|statements|after-editing-the-tree|raises-{type(e).__name__}", case, str(e))
                continue
            if not ok:
                t.fail(f"C16|OFX|statements|{side}|after-editing-the-tree|stale", dict(case, edited=mset), f"{mset}: {len(before)} statements, wrapper appended -> {len(after)}, removed again -> {len(again)}")
            else:
                t.outcome("ofx-statements-follow-edits")
        t.count("evaluations")
        sg = vars(vars(ofx)[son]).get("sonrq" if side == "rq" else "sonrs")
        if ofx.signon is not sg:
            t.fail("C16|OFX|signon|not-the-stored-object", case, "")
    # securities
    for nlists in (0, 1, 2):
        for nsec in (0, 1, 2):
            t.count("evaluations")
            lists = []
            allsec = []
            for i in range(nlists):
                secs = [U.build(U.vary(U.MIN(M.STOCKINFO), j + 2 * i)) for j in range(nsec)]
                allsec += secs
                lists.append(M.SECLIST(*secs))
            kw = {"signonmsgsrsv1": U.build(U.MIN(M.SIGNONMSGSRSV1))}
            if nlists:
                kw["seclistmsgsrsv1"] = M.SECLISTMSGSRSV1(*lists)
            ofx = M.OFX(**kw)
            got = ofx.securities
            if len(got) != len(allsec) or any(a is not b for a, b in zip(got, allsec)):
                t.fail("C16|OFX|securities|wrong-list", {"side": "sec", "nlists": nlists, "nsec": nsec}, f"{len(got)} vs {len(allsec)}")
            else:
                t.outcome("securities-ok")
            if nlists:
                more = U.build(U.vary(U.MIN(M.STOCKINFO), 7))
                kw["seclistmsgsrsv1"].append(M.SECLIST(more))
                got2 = ofx.securities
                if len(got2) != len(allsec) + 1 or got2[-1] is not more:
                    t.fail("C16|OFX|securities|after-editing-the-tree|stale", {"side": "sec", "nlists": nlists, "nsec": nsec}, f"{len(got2)} vs {len(allsec) + 1}")
    return t


def run(ctx):
    classes = S.all_classes()
    jobs = [(c.__name__, ctx.thorough) for c in classes]
    jobs.sort(key=lambda j: -len(S.children(U.cls_by_name(j[0]))))
    tally = ctx.pmap(work, jobs, chunk=2)
    seqs = []
    for side in ("rq", "rs"):
        kinds = [k[0] for k in KINDS[side]]
        for n in range(0, 4):
            for seq in itertools.product(kinds, repeat=n):
                seqs.append((side, seq))
    tally.merge(ctx.pmap(ofx_work, seqs))
    if tally.counts.get("lookups", 0) < 3000 or tally.counts.get("ofx-trees", 0) < 500:
        vacuous(tally, f"vacuous: {tally.counts}")
    if not tally.fails:
        for o in ("proxy-ok", "absent-clean", "miss-clean", "copy-ok", "deepcopy-ok", "pickle-ok", "alias-ok", "ofx-statements-ok", "securities-ok"):
            if o not in tally.outcomes:
                vacuous(tally, f"vacuous: {o} never observed")
    tally.sample({"cls": "STMTTRNRS", "name": "curdef", "defined_at": "stmtrs", "expect": "getattr(inst,'curdef') is inst.stmtrs.curdef"})
    tally.sample({"ofx": ["stmt", "stmtend", "mail"], "side": "rq", "expect": "statements == [stmtrq, stmtendrq] by identity, in order"})
    cov = {
        "evaluations": tally.counts.get("evaluations", 0),
        "distinct_nontrivial": tally.counts.get("lookups", 0),
        "rule": "every class x shapes {MIN, MAXS, MAXS with every Bool False / Integer 0 / Decimal zero, MAXS with the loggers at DEBUG, MAXS with each optional sub-aggregate toggled / each group switched / each repeated kind at 0,1,2,3 members"
        + (", sub-aggregates at MAXS, MAXD" if ctx.thorough else "") + "} x every name declared by exactly one non-repeated descendant aggregate and not by the class itself (must be the stored "
        "object, or a clean miss when the defining aggregate is absent) + 6 undefined names (AttributeError, hasattr False, default honoured) + copy/deepcopy/pickle of the instance as built and as read back from its own element tree (equal model) "
        "+ alias properties; OFX trees from every sequence of <=3 wrappers over 7 request / 10 response kinds (incl. bank, credit-card and investment wrappers carrying only a status): (and again after a wrapper was appended to / removed from a message set) OFX.statements and each message set's statements equal the explicit "
        "walk by identity and order; OFX.securities over 0-2 lists x 0-2 securities; distinct_nontrivial = proxy look-ups",
        "instances": tally.counts.get("instances", 0),
        "ofx_trees": tally.counts.get("ofx-trees", 0),
        "exhaustive": True,
    }
    return {"tally": tally, "coverage": cov, "assumptions": ["names defined by several descendants, or shadowed by a method/property of the class (e.g. list methods), are not demanded",
                                                              "when the defining aggregate is absent either None or AttributeError is accepted"]}


def replay(ctx, case):
    t = Tally()
    if "side" in case:
        ofx_work([(case["side"], tuple(case.get("seq", ())))])
        t = ofx_work([(case["side"], tuple(case.get("seq", ())))]) if case["side"] != "sec" else ofx_work([])
    else:
        t = work([(case["cls"], True)])
    for sig, (n, c, d) in sorted(t.fails.items()):
        print(" ", sig, "|", d)
    return bool(t.fails)
