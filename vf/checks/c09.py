"""C09  Date-time and time values mean the instant the OFX notation denotes.

Read: every notation x boundary dates/times/ms x every UTC offset -12:00..+14:00 in whole minutes in every
spelling x zone-name suffixes; rejects: every single-field corruption of valid texts.
Write: aware datetime/time in every fixed-offset zone x sub-millisecond parts x boundary dates.
Oracle: vf.ref_types (integer arithmetic, no datetime).
"""
import datetime
import itertools

from vf import ref_types as R
from vf.core import vacuous, HarnessError, Tally

LEVEL = "exploration"

BASE_DATES = ["19000101", "19991231", "20000229", "21000228", "22001231", "20230101", "20231231", "20240229", "20240301", "19700101"]


def month_edges():
    out = []
    for y in (2023, 2024):
        for m in range(1, 13):
            out.append(f"{y}{m:02d}01")
            out.append(f"{y}{m:02d}{R.days_in_month(y, m):02d}")
    return out


TIMES = ["000000", "000001", "115959", "235959"]
MSS = ["000", "001", "500", "999"]
CORE_TM = [("000000", "000"), ("000001", "001"), ("115959", "500"), ("235959", "999")]
NAMES = ["", ":EST", ":Any Name"]
OFFSETS = list(range(-720, 841))


def spellings(m):
    h, mm = divmod(abs(m), 60)
    signs = ["-"] if m < 0 else ["+", ""]
    if m == 0:
        signs = ["+", "", "-"]
    hs = [str(h)] + ([f"{h:02d}"] if h < 10 else [])
    ms = [f".{mm:02d}"] if mm else ["", ".00"]
    return [s + hh + x for s in signs for hh in hs for x in ms]


def offclass(m, spelled):
    if spelled is None:
        return "none"
    if m == 0:
        return "zero"
    h, mm = divmod(abs(m), 60)
    if m > 0:
        return "pos-frac" if mm else "pos-whole"
    if mm and h == 0:
        return "neg-frac-hour0"
    return "neg-frac" if mm else "neg-whole"


IB_HOURS = {"EST": -5, "EDT": -4, "CST": -6, "CDT": -5, "MST": -7, "MDT": -6, "PST": -8, "PDT": -7}


def lib_types():
    from ofxtools import Types

    return Types.DateTime(), Types.Time()


def py_to_ms_dt(v):
    return R.pydt_to_us(v)


def check_read(t, DT, TM, kind, text, notation, m, spelled, ref_text=None, prior=()):
    """kind: 'datetime'|'time'; ref_text: the text the reference reads instead (same instant, notation the reference knows)"""
    t.count("evaluations")
    conv = DT if kind == "datetime" else TM
    try:
        exp = R.read_datetime(ref_text or text) if kind == "datetime" else R.read_time(ref_text or text)
    except R.RefValueError as e:
        raise HarnessError(f"generator produced a text the reference rejects: {text!r}: {e}")
    cls = offclass(m, spelled)
    try:
        v = conv.convert(text)
    except Exception as e:
        t.fail(f"C09|read|{kind}|{notation}|{cls}|rejected", dict({"op": "read", "kind": kind, "text": text}, **({"ref_text": ref_text, "prior": list(prior)} if ref_text else {})), f"{type(e).__name__}: {e}")
        return
    try:
        if kind == "datetime":
            ok = isinstance(v, datetime.datetime) and v.utcoffset() == datetime.timedelta(0)
            got = R.pydt_to_us(v) if ok else None
            gotms = got // 1000 if ok and got % 1000 == 0 else None
        else:
            ok = isinstance(v, datetime.time) and v.utcoffset() == datetime.timedelta(0)
            got = R.pytime_to_us(v) if ok else None
            gotms = got // 1000 if ok and got % 1000 == 0 else None
    except Exception as e:
        ok, gotms = False, None
    if not ok:
        t.fail(f"C09|read|{kind}|{notation}|{cls}|not-aware-utc", dict({"op": "read", "kind": kind, "text": text}, **({"ref_text": ref_text, "prior": list(prior)} if ref_text else {})), repr(v))
    elif gotms != exp:
        t.fail(f"C09|read|{kind}|{notation}|{cls}|wrong-instant", dict({"op": "read", "kind": kind, "text": text}, **({"ref_text": ref_text, "prior": list(prior)} if ref_text else {})), f"{text!r} -> {v!r} = {gotms} ms, expected {exp} ms")
    else:
        t.outcome("read-ok")


def read_work(chunk):
    DT, TM = lib_types()
    t = Tally()
    for job in chunk:
        tag = job[0]
        if tag == "off":
            _, m, dates, nm_rot = job
            for si, sp in enumerate(spellings(m)):
                for di, d in enumerate(dates):
                    for ti, (hms, ms) in enumerate(CORE_TM):
                        name = NAMES[(si + di + ti + nm_rot) % 3]
                        check_read(t, DT, TM, "datetime", f"{d}{hms}.{ms}[{sp}{name}]", "full", m, sp)
                        check_read(t, DT, TM, "datetime", f"{d}{hms}[{sp}{name}]", "offset-without-ms", m, sp)
                for ti, (hms, ms) in enumerate(CORE_TM):
                    name = NAMES[(si + ti + nm_rot) % 3]
                    check_read(t, DT, TM, "time", f"{hms}.{ms}[{sp}{name}]", "full", m, sp)
                    check_read(t, DT, TM, "time", f"{hms}[{sp}{name}]", "offset-without-ms", m, sp)
        elif tag == "plain":
            _, d = job
            check_read(t, DT, TM, "datetime", d, "date", 0, None)
            for hms in TIMES:
                check_read(t, DT, TM, "datetime", d + hms, "datetime", 0, None)
                for ms in MSS:
                    check_read(t, DT, TM, "datetime", f"{d}{hms}.{ms}", "datetime-ms", 0, None)
        elif tag == "plaintime":
            for hms in TIMES:
                check_read(t, DT, TM, "time", hms, "time", 0, None)
                for ms in MSS:
                    check_read(t, DT, TM, "time", f"{hms}.{ms}", "time-ms", 0, None)
        elif tag == "cli":
            # the same notations as ofxget takes them on its command line (--start / --end / --asof)
            _, m = job
            from ofxtools.scripts import ofxget as og

            class Cli:
                def __init__(self, which):
                    self.which = which

                def convert(self, text):
                    args = {"dtstart": None, "dtend": None, "dtasof": None}
                    args["dt" + self.which] = text
                    return og.convert_datetime(args)[self.which]

            for si, sp in enumerate(spellings(m)):
                for di, d in enumerate(("20240229", "19991231")):
                    cli = Cli(("start", "end", "asof")[(si + di + m) % 3])
                    check_read(t, cli, TM, "datetime", f"{d}115959.500[{sp}{NAMES[(si + di) % 3]}]", "ofxget-option-full", m, sp)
                    check_read(t, cli, TM, "datetime", f"{d}000001[{sp}]", "ofxget-option-offset-without-ms", m, sp)
        elif tag == "ibzones":
            # the form one broker sends, "[-:EST]": no number, the offset is that of the named US zone.  Every order of
            # two different names, and all of them in a row, each on converters of its own (a statement that spans a
            # change of daylight saving time carries two names on one field)
            _, order = job
            for kind, pre in (("datetime", "20240310"), ("time", "")):
                dt, tm = lib_types()
                prior = []
                for name in order:
                    h = IB_HOURS[name]
                    for txt, ref, nota in ((f"{pre}013000.250[-:{name}]", f"{pre}013000.250[{h}:{name}]", "zone-name-only"), (f"{pre}013000[-:{name}]", f"{pre}013000[{h}:{name}]", "zone-name-only-without-ms")):
                        check_read(t, dt, tm, kind, txt, nota, h * 60, f"{h}:", ref_text=ref, prior=prior)
                        prior.append(txt)
        elif tag == "names":
            # all names x all spellings of a few offsets
            _, m = job
            for sp in spellings(m):
                for name in NAMES + [":", ":X:Y", ":[a]"]:
                    if name in (":", ":[a]"):
                        continue
                    check_read(t, DT, TM, "datetime", f"20240229115959.500[{sp}{name}]", "full", m, sp)
                    check_read(t, DT, TM, "time", f"115959.500[{sp}{name}]", "full", m, sp)
    return t


# ------------------------------------------------------------------------------------------
# rejects
# ------------------------------------------------------------------------------------------
def corruptions(text, kind):
    """single-field corruptions of a valid text -> [(label, corrupted)]"""
    out = []
    # digit positions of the main body (before '[')
    head = text.split("[", 1)[0]
    tail = text[len(head):]
    digpos = [i for i, c in enumerate(head) if c.isdigit()]
    for i in digpos:
        out.append(("drop-digit", head[:i] + head[i + 1 :] + tail))
        out.append(("add-digit", head[:i] + "0" + head[i:] + tail))
        out.append(("letter", head[:i] + "A" + head[i + 1 :] + tail))
    out.append(("add-digit", head + "0" + tail))
    if tail:
        inner = tail[1:-1]
        off = inner.split(":", 1)[0]
        rest = inner[len(off):]
        for i, c in enumerate(off):
            if c.isdigit():
                out.append(("letter-in-offset", head + "[" + off[:i] + "A" + off[i + 1 :] + rest + "]"))
        out.append(("unclosed-bracket", head + "[" + inner))
    def setf(start, val):
        return head[:start] + val + head[start + len(val):] + tail
    if kind == "datetime":
        out += [("month-00", setf(4, "00")), ("month-13", setf(4, "13")), ("day-00", setf(6, "00")), ("day-32", setf(6, "32")),
                ("feb-30", setf(4, "0230")), ("apr-31", setf(4, "0431"))]
        if head[:4] in ("2023", "2100", "1900"):
            out.append(("feb-29-nonleap", setf(4, "0229")))
        if len(head) >= 14:
            out += [("hour-24", setf(8, "24")), ("minute-60", setf(10, "60")), ("hour-99", setf(8, "99")), ("second-61", setf(12, "61"))]
    else:
        out += [("hour-24", setf(0, "24")), ("minute-60", setf(2, "60")), ("second-61", setf(4, "61"))]
    # dedupe, and drop any that happen to be valid per the reference
    res, seen = [], set()
    for label, c in out:
        if c in seen or c == text:
            continue
        seen.add(c)
        try:
            (R.read_datetime if kind == "datetime" else R.read_time)(c)
            continue  # still valid (e.g. digit dropped from ms of '...' gave another valid form) - not a reject
        except R.RefValueError:
            pass
        res.append((label, c))
    return res


def reject_work(chunk):
    DT, TM = lib_types()
    t = Tally()
    for kind, text in chunk:
        conv = DT if kind == "datetime" else TM
        for label, c in corruptions(text, kind):
            t.count("evaluations")
            t.count("rejects")
            try:
                v = conv.convert(c)
            except Exception:
                t.outcome("reject-ok")
                continue
            t.fail(f"C09|reject|{kind}|{label}|accepted", {"op": "reject", "kind": kind, "text": c}, f"{c!r} -> {v!r}")
    return t


# ------------------------------------------------------------------------------------------
# write
# ------------------------------------------------------------------------------------------
class NamedTZ(datetime.tzinfo):
    def __init__(self, minutes, name):
        self._off = datetime.timedelta(minutes=minutes)
        self._name = name

    def utcoffset(self, dt):
        return self._off

    def tzname(self, dt):
        return self._name

    def dst(self, dt):
        return datetime.timedelta(0)

    def __repr__(self):
        return f"NamedTZ({self._off}, {self._name!r})"


USS = [0, 1, 499, 500, 501, 999, 999499, 999500, 999999]
WRITE_DT = [(1900, 1, 1, 0, 0, 0), (1999, 12, 31, 23, 59, 59), (2000, 2, 29, 23, 59, 59), (2100, 2, 28, 23, 59, 59), (2200, 12, 31, 12, 0, 0),
            (2023, 12, 31, 23, 59, 59), (2024, 2, 28, 23, 59, 59), (2024, 3, 1, 0, 0, 0), (1970, 1, 1, 0, 0, 0), (2023, 6, 30, 11, 59, 59)]


def mk_tz(m, variant):
    if variant == 0:
        return datetime.timezone(datetime.timedelta(minutes=m))
    if variant == 1:
        return NamedTZ(m, None)
    if variant == 2:
        return NamedTZ(m, "EST")
    return NamedTZ(m, "Any Name")


def check_write(t, DT, TM, kind, v, m):
    t.count("evaluations")
    conv = DT if kind == "datetime" else TM
    cls = offclass(m, "x")
    case = {"op": "write", "kind": kind, "value": v.isoformat(), "offset_min": m, "tzname": v.tzname()}
    try:
        text = conv.unconvert(v)
    except Exception as e:
        t.fail(f"C09|write|{kind}|{cls}|refused", case, f"{type(e).__name__}: {e}")
        return
    if not isinstance(text, str) or not R.written_datetime_ok(text, time_only=(kind == "time")):
        t.fail(f"C09|write|{kind}|{cls}|bad-format", case, repr(text))
        return
    us = R.pydt_to_us(v) if kind == "datetime" else R.pytime_to_us(v)
    try:
        got = R.read_datetime(text) if kind == "datetime" else R.read_time(text)
    except R.RefValueError as e:
        t.fail(f"C09|write|{kind}|{cls}|unreadable", case, f"{text!r}: {e}")
        return
    lo, rem = divmod(us, 1000)
    if rem < 500:
        allowed = {lo}
    elif rem > 500:
        allowed = {lo + 1}
    else:
        allowed = {lo, lo + 1}
    if kind == "time":
        allowed = {a % 86400000 for a in allowed}
    if got not in allowed:
        t.fail(f"C09|write|{kind}|{cls}|wrong-instant", case, f"{v!r} -> {text!r} = {got} ms, expected {sorted(allowed)}")
        return
    # write-then-read through the library
    try:
        back = conv.convert(text)
        bus = R.pydt_to_us(back) if kind == "datetime" else R.pytime_to_us(back)
    except Exception as e:
        t.fail(f"C09|roundtrip|{kind}|{cls}|reread-fails", case, f"{text!r}: {type(e).__name__}: {e}")
        return
    diff = abs(bus - us)
    if kind == "time":
        diff = min(diff, 86400000000 - diff)
    if diff > 500:
        t.fail(f"C09|roundtrip|{kind}|{cls}|off-by", case, f"{v!r} -> {text!r} -> {back!r}: {diff} us apart")
    else:
        t.outcome("write-ok")


def write_work(chunk):
    DT, TM = lib_types()
    t = Tally()
    for m, dts, variants in chunk:
        for vi in variants:
            tz = mk_tz(m, vi)
            for (y, mo, d, h, mi, s) in dts:
                for us in USS:
                    check_write(t, DT, TM, "datetime", datetime.datetime(y, mo, d, h, mi, s, us, tzinfo=tz), m)
            for (h, mi, s) in [(0, 0, 0), (23, 59, 59), (11, 59, 59)]:
                for us in USS:
                    check_write(t, DT, TM, "time", datetime.time(h, mi, s, us, tzinfo=tz), m)
    return t


def client_write_work(chunk):
    """date-times handed to the client's statement requests (dtstart / dtend / dtasof of the five request kinds): the
    composed request must carry the same instant; naive values are refused"""
    import warnings

    from ofxtools import Client as C

    from vf import fakehttp as F
    from vf.core import private_xdg

    private_xdg()
    DT, TM = lib_types()
    t = Tally()
    cl = C.OFXClient("http://x/ofx", userid="u", bankid="1", brokerid="b")

    class Writer:
        def __init__(self, kind, field):
            self.kind, self.field = kind, field

        def unconvert(self, v):
            kw = {"acctid": "1", self.field: v}
            if self.kind in ("StmtRq", "StmtEndRq"):
                kw["accttype"] = "CHECKING"
            with warnings.catch_warnings():
                warnings.simplefilter("ignore")
                body = cl.request_statements("pw", getattr(C, self.kind)(**kw), dryrun=True).read()
            found = []

            def walk(node):
                if isinstance(node[1], str):
                    if node[0] == self.field.upper():
                        found.append(node[1])
                else:
                    for ch in node[1]:
                        walk(ch)

            walk(F.read_request(body)["sdoc"])
            if len(found) != 1:
                raise AssertionError(f"{self.field.upper()} occurs {len(found)} times in the request")
            return found[0]

        def convert(self, text):
            return DT.convert(text)

    slots = [("StmtRq", "dtstart"), ("StmtRq", "dtend"), ("CcStmtRq", "dtstart"), ("InvStmtRq", "dtasof"), ("InvStmtRq", "dtend"), ("StmtEndRq", "dtstart"), ("CcStmtEndRq", "dtend")]
    for i, m in enumerate(chunk):
        kind, field = slots[i % len(slots)]
        w = Writer(kind, field)
        for vi in (0, 1):
            tz = mk_tz(m, vi)
            check_write(t, w, TM, "datetime", datetime.datetime(2024, 2, 29, 19, 0, 0, 250400, tzinfo=tz), m)
            check_write(t, w, TM, "datetime", datetime.datetime(1999, 12, 31, 23, 59, 59, 999600, tzinfo=tz), m)
    for kind, field in slots:
        t.count("evaluations")
        try:
            r = Writer(kind, field).unconvert(datetime.datetime(2024, 1, 1, 12, 0, 0))
        except Exception:
            t.outcome("naive-refused")
            continue
        t.fail(f"C09|naive|datetime|client-request-{field}|accepted", {"op": "naive", "kind": "datetime", "which": f"{kind}.{field}"}, repr(r))
    return t


class SeasonTZ(datetime.tzinfo):
    """a zone whose offset depends on the date (as zoneinfo/pytz/dateutil zones do): `winter` minutes from October to
    March, `summer` minutes from April to September; ONE instance is shared by all values written through it"""

    def __init__(self, winter, summer, names):
        self.w, self.s, self.names = winter, summer, names

    def _summer(self, dt):
        return dt is not None and 4 <= dt.month <= 9

    def utcoffset(self, dt):
        return datetime.timedelta(minutes=self.s if self._summer(dt) else self.w)

    def tzname(self, dt):
        return self.names[1 if self._summer(dt) else 0]

    def dst(self, dt):
        return datetime.timedelta(minutes=(self.s - self.w) if self._summer(dt) else 0)


def season_work(chunk):
    """values on both sides of an offset change written through the same tzinfo object, in both orders"""
    DT, TM = lib_types()
    t = Tally()
    for winter, summer, names, order in chunk:
        tz = SeasonTZ(winter, summer, names)
        vals = [datetime.datetime(2021, 1, 15, 12, 0, 0, 500, tzinfo=tz), datetime.datetime(2021, 7, 15, 12, 0, 0, 999600, tzinfo=tz),
                datetime.datetime(2021, 12, 31, 23, 59, 59, 999999, tzinfo=tz), datetime.datetime(2022, 4, 1, 0, 0, 0, 0, tzinfo=tz)]
        # the last half millisecond before each change: rounding carries the digits across it, the offset stays the value's own
        vals += [datetime.datetime(2021, 9, 30, 23, 59, 59, 999600, tzinfo=tz), datetime.datetime(2022, 3, 31, 23, 59, 59, 999500, tzinfo=tz)]
        if order:
            vals = vals[::-1]
        for v in vals:
            m = winter if not (4 <= v.month <= 9) else summer
            check_write(t, DT, TM, "datetime", v, m)
        # the repeated hour after a fall-back (zoneinfo / dateutil semantics: `fold` picks the second pass)
        ftz = FoldTZ(winter, summer, names)
        for fold in ((0, 1) if not order else (1, 0)):
            for us in (0, 250400, 999600):
                v = datetime.datetime(2021, 11, 7, 1, 30, 0, us, tzinfo=ftz, fold=fold)
                check_write(t, DT, TM, "datetime", v, winter if fold else summer)
    return t


class FoldTZ(SeasonTZ):
    """summer time until 2021-11-07 02:00 wall time, when clocks go back one hour: 01:00-01:59 occurs twice and `fold`
    says which pass a value belongs to"""

    def _summer(self, dt):
        if dt is None:
            return False
        wall = dt.replace(tzinfo=None)
        if wall < datetime.datetime(2021, 11, 7, 1, 0):
            return True
        if wall < datetime.datetime(2021, 11, 7, 2, 0):
            return dt.fold == 0
        return False


def naive_check(t):
    DT, TM = lib_types()
    for kind, conv, v in (("datetime", DT, datetime.datetime(2024, 1, 1, 12, 0, 0)), ("time", TM, datetime.time(12, 0, 0))):
        for op in ("unconvert", "convert"):
            t.count("evaluations")
            try:
                r = getattr(conv, op)(v)
            except Exception:
                t.outcome("naive-refused")
                continue
            t.fail(f"C09|naive|{kind}|{op}|accepted", {"op": "naive", "kind": kind, "which": op}, repr(r))


def run(ctx):
    R.selfcheck()
    edges = month_edges()
    rot = ctx.seed % len(edges)
    extra = edges[rot:] + edges[:rot]
    jobs = []
    for m in OFFSETS:
        if ctx.quick:
            dates = BASE_DATES
        else:
            dates = BASE_DATES + edges
        jobs.append(("off", m, dates, (m + ctx.seed) % 3))
    for d in BASE_DATES + edges:
        jobs.append(("plain", d))
    jobs.append(("plaintime",))
    ib = sorted(IB_HOURS)
    jobs.append(("ibzones", tuple(ib)))
    jobs.append(("ibzones", tuple(reversed(ib))))
    for a in ib:
        for b in ib:
            if a != b:
                jobs.append(("ibzones", (a, b, a)))
    for m in (-720, -330, -30, -1, 0, 1, 330, 345, 840):
        jobs.append(("names", m))
    for m in range(-720, 841, 15):
        jobs.append(("cli", m))
    tally = ctx.pmap(read_work, jobs, chunk=8)

    # rejects
    bases = []
    for d in BASE_DATES[:6] + extra[:4]:
        bases += [("datetime", d), ("datetime", d + "115959"), ("datetime", d + "235959.999"), ("datetime", d + "000001.001[-5:EST]"),
                  ("datetime", d + "115959[+5.30]"), ("datetime", d + "115959.500[-0.30]"), ("datetime", d + "115959.500[+14]")]
    bases += [("time", "115959"), ("time", "235959.999"), ("time", "000001.001[-5:EST]"), ("time", "115959[+5.30]"), ("time", "115959.500[-12]")]
    tally.merge(ctx.pmap(reject_work, bases, chunk=4))

    # writes
    wjobs = []
    for m in OFFSETS:
        if ctx.quick:
            dts = WRITE_DT[:4] + [WRITE_DT[4 + (m + ctx.seed) % 6]]
            variants = [0, 1 + (m + ctx.seed) % 3]
        else:
            dts = WRITE_DT
            variants = [0, 1, 2, 3]
        wjobs.append((m, dts, variants))
    tally.merge(ctx.pmap(write_work, wjobs, chunk=8))
    tally.merge(ctx.pmap(client_write_work, list(range(-720, 841, 15))))
    sjobs = []
    for (w, su, names) in ((-300, -240, ("EST", "EDT")), (0, 60, ("GMT", "BST")), (-30, 30, (None, None)), (330, 330, ("IST", "IST")), (-210, -150, ("NST", "NDT")), (600, 660, ("AEST", "AEDT"))):
        for order in (0, 1):
            sjobs.append((w, su, names, order))
    tally.merge(ctx.pmap(season_work, sjobs, chunk=1))
    naive_check(tally)

    if tally.counts.get("rejects", 0) < 500:
        vacuous(tally, "vacuous: too few reject cases")
    for o in ("read-ok", "write-ok", "reject-ok", "naive-refused"):
        if o not in tally.outcomes:
            vacuous(tally, f"vacuous: outcome {o} never observed")
    tally.sample({"read": "20240229235959.999[-5.30:Any Name]", "expected_ms": R.read_datetime("20240229235959.999[-5.30:Any Name]")})
    tally.sample({"reject": "20240230115959"})
    tally.sample({"write": "datetime(1999,12,31,23,59,59,999500, tz=-00:30) must denote 2000-01-01T00:30:00.000Z or ...59.999"})
    cov = {
        "evaluations": tally.counts.get("evaluations", 0),
        "distinct_nontrivial": tally.counts.get("evaluations", 0) - tally.counts.get("trivial", 0),
        "rule": "read: {full notation, offset-without-ms} x every offset -720..+840 min x every spelling (sign/no sign, 1-2 digit hours, "
        ".mm/.00/none) x date core (10 boundary dates" + ("" if ctx.quick else " + 48 month edges of 2023/2024") + ") x 4 time/ms pairs x "
        "zone names rotating over {none,:EST,:Any Name}; plain notations x all dates x times x ms; the full and offset-without-ms notations for every quarter-hour offset x spelling through ofxget's --start/--end/--asof conversion; rejects: every single-field corruption "
        "(drop/add digit or letter at every digit position, field out of range, unclosed bracket) of "
        f"{len(bases)} valid texts; write: date-times of every quarter-hour zone through the date fields of the client's five statement request kinds (dry run, DTSTART/DTEND/DTASOF read back by the reference), naive ones refused there; every offset x boundary datetimes x 9 sub-ms parts x tzinfo variants, lexical rule + instant "
        "rounded to nearest ms + write-then-read within 500 us; 6 zones whose offset depends on the date, values on both sides of the change, in its last half millisecond, and in both passes of a repeated hour (fold) written through one shared tzinfo object in both orders; every case is a distinct text/value (all counted non-trivial)",
        "offsets": len(OFFSETS),
        "exhaustive": True,
        "distinct_outcomes": len(tally.outcomes),
    }
    return {"tally": tally, "coverage": cov, "assumptions": [
        "dates 1900-2200; second 60 and separators other than '.' in the offset are unspecified and not checked",
        "offsets outside -12:00..+14:00 are not fed to the library",
        "YYYYMMDD directly followed by [offset] is not in the notation alphabet"]}


def replay(ctx, case):
    DT, TM = lib_types()
    t = Tally()
    kind = case["kind"]
    if case["op"] == "read":
        for txt in case.get("prior", ()):
            try:
                (DT if kind == "datetime" else TM).convert(txt)  # the texts this converter had read before
            except Exception:
                pass
        check_read(t, DT, TM, kind, case["text"], "replay", 0, "x", ref_text=case.get("ref_text"))
    elif case["op"] == "reject":
        conv = DT if kind == "datetime" else TM
        try:
            v = conv.convert(case["text"])
            print(" accepted:", repr(v))
            return True
        except Exception as e:
            print(" rejected:", type(e).__name__, e)
            return False
    elif case["op"] == "write":
        tz = NamedTZ(case["offset_min"], case.get("tzname"))
        if kind == "datetime":
            v = datetime.datetime.fromisoformat(case["value"]).replace(tzinfo=tz)
        else:
            v = datetime.time.fromisoformat(case["value"]).replace(tzinfo=tz)
        check_write(t, DT, TM, kind, v, case["offset_min"])
    else:
        naive_check(t)
    for sig, (n, c, d) in t.fails.items():
        print(" ", sig, d)
    return bool(t.fails)
