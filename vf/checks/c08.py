"""C08  Improperly nested or truncated markup is never silently accepted as a tree.

valid bodies (all small trees of C02 in XML and SGML rendering + documents of realistic roots) x every single fault:
truncation, deletion / renaming / duplication of every aggregate end tag, transposition of adjacent end tags, stray end
tag or stray text after an end tag, second top-level element.  The strict reference reader decides whether a faulty
text is still well-formed (then it is skipped); otherwise TreeBuilder.feed()+close() and OFXTree.parse() must raise.
"""
import io

from vf import ref_header as H
from vf import ref_schema as S
from vf import ref_sgml
from vf import universe as U
from vf import wire
from vf.checks import c02
from vf.core import vacuous, HarnessError, Tally

LEVEL = "fault_enumeration"

ROOTS = ["OFX", "STMTTRNRS", "CCSTMTTRNRS", "INVSTMTTRNRS", "PROFTRNRS", "ACCTINFOTRNRS", "SIGNONMSGSRQV1", "SECLIST", "STMTRS", "INVSTMTRS", "MSGSETLIST", "BANKTRANLIST"]


def spans(term, leafopts):
    """render + token spans: [(kind, tag, leaf, start, end)] of the canonical/SGML rendering without white space"""
    toks, nleaves = ref_sgml.tokens(term)
    out = []
    pos = 0
    parts = []
    for k, v, leaf in toks:
        omit, cd = leafopts.get(leaf, (False, False)) if leaf is not None else (False, False)
        if k == "S":
            s = "<" + v + ">"
        elif k == "D":
            s = "<![CDATA[" + v + "]]>" if cd else v
        else:
            s = "" if (leaf is not None and omit) else "</" + v + ">"
        if s:
            out.append((k, v, leaf, pos, pos + len(s)))
        parts.append(s)
        pos += len(s)
    return "".join(parts), out


def faults(text, sp, full_truncation):
    """yield (fault kind, faulty text)"""
    n = len(text)
    # truncations
    if full_truncation:
        cuts = range(0, n)
    else:
        cuts = set()
        for k, v, leaf, a, b in sp:
            cuts.add(a)
            cuts.add(min(a + 1, n - 1))
            cuts.add((a + b) // 2)
            cuts.add(b - 1)
        cuts = sorted(c for c in cuts if 0 <= c < n)
    for c in cuts:
        yield "truncation", text[:c]
    ends = [(i, s) for i, s in enumerate(sp) if s[0] == "E" and s[2] is None]
    names = sorted({s[1] for s in sp if s[0] == "S"})
    for i, (k, v, leaf, a, b) in ends:
        yield "end-tag-deleted", text[:a] + text[b:]
        yield "end-tag-duplicated", text[:b] + text[a:b] + text[b:]
        ren = v[:-1] + ("X" if v[-1] != "X" else "Y")
        yield "end-tag-misspelled", text[:a] + "</" + ren + ">" + text[b:]
        yield "end-tag-misspelled", text[:a] + "</" + v + "X>" + text[b:]
        for other in names:
            if other != v:
                yield "end-tag-of-other-element", text[:a] + "</" + other + ">" + text[b:]
    for (i, e1), (j, e2) in zip(ends, ends[1:]):
        if j == i + 1 and e1[1] != e2[1]:
            a1, b1, a2, b2 = e1[3], e1[4], e2[3], e2[4]
            yield "end-tags-transposed", text[:a1] + text[a2:b2] + text[a1:b1] + text[b2:]
    for k, v, leaf, a, b in sp:
        if k == "E":
            yield "stray-end-tag", text[:b] + "</ZZ>" + text[b:]
            yield "stray-end-tag", text[:b] + "</" + v + ">" + text[b:]
            yield "stray-text", text[:b] + "junk" + text[b:]
            yield "stray-text", text[:b] + " \n junk " + text[b:]
            yield "stray-text", text[:b] + "\x1a junk" + text[b:]
    root = sp[0][1]
    # in front of the root
    yield "stray-end-tag", "</ZZ>" + text
    yield "stray-end-tag", "</" + root + ">" + text
    yield "second-top-level-element", "<ZZ>1</ZZ>" + text
    yield "second-top-level-element", "<ZZ></ZZ>\r\n" + text
    yield "end-tag-deleted", "<ZZ>" + text
    yield "second-top-level-element", text + "<" + root + "></" + root + ">"
    yield "second-top-level-element", text + "\n<ZZ>1</ZZ>"
    yield "second-top-level-element", text + text
    yield "second-top-level-element", text + "\x1a<ZZ>1</ZZ>"
    yield "stray-end-tag", text + "\x1a\x00</ZZ>"


def lib_feed(text):
    from ofxtools.Parser import TreeBuilder

    tb = TreeBuilder()
    tb.feed(text)
    return tb.close()


def lib_feed_pieces(text):
    """the same text handed to one TreeBuilder in three feed() calls, each cut made in front of the start tag of an
    aggregate (so that no data element is separated from its data or end tag) - an application reading a download
    chunk by chunk"""
    import re

    from ofxtools.Parser import TreeBuilder

    cuts = [m.start() for m in re.finditer(r"<[A-Z0-9._]+>\s*<(?!!)", text) if m.start() > 0]
    cuts = [i for i in cuts if text.rfind("<![CDATA[", 0, i) <= text.rfind("]]>", 0, i)]
    tb = TreeBuilder()
    if len(cuts) < 2:
        tb.feed(text)
        return tb.close()
    a, b = cuts[len(cuts) // 3], cuts[(2 * len(cuts)) // 3]
    for piece in (text[:a], text[a:b], text[b:]):
        if piece:
            tb.feed(piece)
    return tb.close()


def lib_parse(text, sgml):
    from ofxtools.Parser import OFXTree

    head = H.render_v1(H.v1_fields(102, encoding="UTF-8", charset="NONE")) if sgml else H.render_v2(H.v2_fields(203))
    t = OFXTree()
    return t.parse(io.BytesIO((head + text).encode("utf_8")))


_REUSED = {}


def lib_parse_reused(text, sgml):
    """an OFXTree that has parsed a well-formed file before (and every faulty text since)"""
    from ofxtools.Parser import OFXTree

    head = H.render_v1(H.v1_fields(102, encoding="UTF-8", charset="NONE")) if sgml else H.render_v2(H.v2_fields(203))
    if sgml not in _REUSED:
        _REUSED[sgml] = OFXTree()
        _REUSED[sgml].parse(io.BytesIO((head + "<OFX><SIGNONMSGSRSV1><SONRS><A>earlier document</A></SONRS></SIGNONMSGSRSV1></OFX>").encode("utf_8")))
    return _REUSED[sgml].parse(io.BytesIO((head + text).encode("utf_8")))


def check_text(t, rendering, kind, faulty, case_fn):
    try:
        ref_sgml.build(faulty)
        t.count("still-well-formed")
        return
    except ref_sgml.RefSyntaxError:
        pass
    t.count("evaluations")
    t.count("faulty-texts")
    for route, fn in (("feed", lambda: lib_feed(faulty)), ("feed-in-pieces", lambda: lib_feed_pieces(faulty)), ("parse", lambda: lib_parse(faulty, rendering == "sgml")), ("parse-by-a-reused-OFXTree", lambda: lib_parse_reused(faulty, rendering == "sgml"))):
        try:
            r = fn()
        except Exception:
            t.outcome("rejected-" + route)
            continue
        if r is None:
            t.outcome("no-tree-" + route)
            continue
        t.fail(f"C08|{rendering}|{kind}|{route}|accepted", case_fn(faulty), f"{faulty[:300]!r} -> a tree rooted at <{r.tag}>")


def byte_faults(t, text, sp, case0):
    """damage that only shows at the byte level: a byte the declared charset cannot decode inside the name of every
    aggregate end tag, and behind it - in a v1 file declared UTF-8 (CHARSET:NONE) and one declared Windows-1252.  Whatever
    the decoder does with such a byte, the end tag no longer names its element / text follows it."""
    from ofxtools.Parser import OFXTree

    ends = [(a, b, v) for k, v, leaf, a, b in sp if k == "E" and leaf is None]
    for charset, codec, junk in (("NONE", "utf_8", b"\xff"), ("NONE", "utf_8", b"\xc3"), ("1252", "cp1252", b"\x81")):
        head = H.render_v1(H.v1_fields(102, encoding="USASCII", charset=charset)).encode("ascii")
        try:
            raw = text.encode(codec)
        except UnicodeEncodeError:
            continue
        if len(raw) != len(text):
            continue  # offsets below are character offsets
        for a, b, v in ends:
            for kind, data in (("end-tag-damaged-by-undecodable-byte", raw[: a + 3] + junk + raw[a + 3 :]), ("undecodable-bytes-after-end-tag", raw[:b] + junk + junk + raw[b:])):
                t.count("evaluations")
                t.count("faulty-texts")
                try:
                    r = OFXTree().parse(io.BytesIO(head + data))
                except Exception:
                    t.outcome("rejected-parse")
                    continue
                if r is None:
                    t.outcome("no-tree-parse")
                    continue
                t.fail(f"C08|sgml|{kind}|parse|accepted", dict(case0, kind=kind, hex=(head + data).hex(), route="bytes"), f"{data[max(0, a - 20): b + 10]!r} -> a tree rooted at <{r.tag}>")


def small_work(chunk):
    t = Tally()
    for term, full in chunk:
        toks, nleaves = ref_sgml.tokens(term)
        data = {leaf: v for k, v, leaf in toks if k == "D"}
        for rendering in ("xml", "sgml", "cdata"):
            if rendering == "cdata":
                # every data element that allows it CDATA-wrapped: markup between two sections must still be checked
                lo = {leaf: (False, True) for leaf in data if ref_sgml.can_cdata(data[leaf])}
                if len(lo) < 2:
                    continue
            else:
                lo = {} if rendering == "xml" else {leaf: (True, False) for leaf in range(nleaves) if ref_sgml.can_omit(toks, leaf)}
            text, sp = spans(term, lo)
            if ref_sgml.build(text) != term:
                raise HarnessError(f"reference does not read back {text!r}")
            try:
                if ref_sgml.et_to_term(lib_feed(text)) != term:
                    t.fail(f"C08|{rendering}|valid-body|feed|wrong-tree", {"text": text, "rendering": rendering}, text)
            except Exception as e:
                t.fail(f"C08|{rendering}|valid-body|feed|rejected", {"text": text, "rendering": rendering}, f"{text!r}: {e}")
            for kind, faulty in faults(text, sp, full):
                check_text(t, rendering, kind, faulty, lambda f: {"text": f, "rendering": rendering, "kind": kind})
            if rendering == "sgml":
                byte_faults(t, text, sp, {"text": text, "rendering": rendering})
        t.count("bodies")
    return t


def doc_work(chunk):
    t = Tally()
    for clsname, which, full in chunk:
        cls = U.cls_by_name(clsname)
        term = {"MIN": U.MIN, "MAXS": U.MAXS, "MAXD": U.MAXD}[which](cls)
        sdoc = wire.doc(term)
        toks, nleaves = ref_sgml.tokens(sdoc)
        for rendering in ("xml", "sgml"):
            lo = {} if rendering == "xml" else {leaf: (True, False) for leaf in range(nleaves) if ref_sgml.can_omit(toks, leaf)}
            text, sp = spans(sdoc, lo)
            for kind, faulty in faults(text, sp, full):
                check_text(t, rendering, kind, faulty, lambda f: {"text": f, "rendering": rendering, "kind": kind})
            if rendering == "sgml":
                byte_faults(t, text, sp, {"text": text, "rendering": rendering})
        t.count("bodies")
    return t


def path_work(chunk):
    """files given to OFXTree.parse() by path: a well-formed file is parsed, then replaced - same path, same length, same
    modification time - by a faulty one; the faulty one must be refused (by a fresh OFXTree and by the same one)"""
    import os
    import shutil
    import tempfile

    from ofxtools.Parser import OFXTree

    t = Tally()
    d = tempfile.mkdtemp(prefix="vf-c08-")
    try:
        for clsname, which in chunk:
            sdoc = wire.doc({"MIN": U.MIN, "MAXS": U.MAXS}[which](U.cls_by_name(clsname)))
            for rendering in ("xml", "sgml"):
                toks, nleaves = ref_sgml.tokens(sdoc)
                lo = {} if rendering == "xml" else {leaf: (True, False) for leaf in range(nleaves) if ref_sgml.can_omit(toks, leaf)}
                text, sp = spans(sdoc, lo)
                head = H.render_v1(H.v1_fields(102, encoding="UTF-8", charset="NONE")) if rendering == "sgml" else H.render_v2(H.v2_fields(203))
                path = os.path.join(d, f"{clsname}-{which}-{rendering}.ofx")
                for kind, faulty in faults(text, sp, False):
                    if len(faulty.encode("utf_8")) != len(text.encode("utf_8")):
                        continue
                    try:
                        ref_sgml.build(faulty)
                        continue
                    except ref_sgml.RefSyntaxError:
                        pass
                    for reuse in (False, True):
                        t.count("evaluations")
                        t.count("faulty-files")
                        case = {"text": faulty, "rendering": rendering, "kind": kind, "route": "path", "valid": text}
                        with open(path, "wb") as f:
                            f.write((head + text).encode("utf_8"))
                        st = os.stat(path)
                        tree = OFXTree()
                        try:
                            tree.parse(path)
                        except Exception as e:
                            t.fail(f"C08|{rendering}|valid-file|parse-by-path|rejected", case, repr(e)[:200])
                            break
                        with open(path, "wb") as f:
                            f.write((head + faulty).encode("utf_8"))
                        os.utime(path, ns=(st.st_atime_ns, st.st_mtime_ns))
                        try:
                            r = (tree if reuse else OFXTree()).parse(path)
                        except Exception:
                            t.outcome("rejected-parse-by-path")
                            continue
                        t.fail(f"C08|{rendering}|{kind}|parse-by-path-after-the-valid-file|accepted", case, f"{faulty[:200]!r} at the path that held the well-formed file before")
            t.count("bodies")
    finally:
        shutil.rmtree(d, ignore_errors=True)
    return t


def run(ctx):
    ref_sgml.selfcheck()
    if ctx.quick:
        terms = [(tm, True) for tm in c02.all_trees(3)] + [(tm, False) for tm in c02.all_trees(4, 0) if _size(tm) == 4]
    else:
        terms = [(tm, True) for tm in c02.all_trees(4, 1)] + [(tm, False) for tm in c02.all_trees(4) if c02._nondefault(tm) > 1]
    rot = ctx.seed % len(terms)
    terms = terms[rot:] + terms[:rot]
    tally = ctx.pmap(small_work, terms)
    docs = []
    for r in ROOTS:
        docs.append((r, "MIN", True))
        docs.append((r, "MAXS", ctx.thorough))
        if ctx.thorough:
            docs.append((r, "MAXD", False))
    tally.merge(ctx.pmap(doc_work, docs, chunk=1))
    tally.merge(ctx.pmap(path_work, [(r, "MIN") for r in ROOTS] + [(r, "MAXS") for r in ROOTS[: 4 if ctx.quick else len(ROOTS)]], chunk=1))
    if tally.counts.get("faulty-texts", 0) < 100000:
        vacuous(tally, f"vacuous: {tally.counts}")
    if not tally.fails:
        for o in ("rejected-feed", "rejected-parse"):
            if o not in tally.outcomes:
                vacuous(tally, f"vacuous: {o} never observed")
    tally.sample({"valid": "<A><B1>x</B1><C.D_E></C.D_E></A>", "faults": ["<A><B1>x</B1><C.D_E></C.D_E>", "<A><B1>x</B1><C.D_E></A></C.D_E>", "<A><B1>x</B1><C.D_E></C.D_E></A>junk"]})
    cov = {
        "evaluations": tally.counts.get("evaluations", 0),
        "distinct_nontrivial": tally.counts.get("faulty-texts", 0),
        "rule": ("all trees <=3 nodes (every byte truncation) + all 4-node trees with default data (token-level truncations)" if ctx.quick else
                 "all trees <=4 nodes with <=1 non-default leaf (every byte truncation) + the remaining 4-node trees (token-level truncations)") +
        f" over the C02 alphabets, in XML and SGML rendering and (two or more data elements) with every data element CDATA-wrapped, + MIN/MAXS{'/MAXD' if ctx.thorough else ''} documents of {len(ROOTS)} realistic roots; x every single fault: "
        "truncation, each aggregate end tag deleted / duplicated / misspelled (2 ways) / replaced by every other element's name, adjacent end tags transposed, stray end "
        "tag (2) or stray text (2) after every end tag, second top-level element (3 behind, 2 in front of the root), an undecodable byte inside / behind every aggregate end tag of the v1 files (UTF-8 and Windows-1252), stray end tag / unclosed start tag in front of the root; faulty texts the strict reference reader still accepts are skipped; each remaining text "
        "goes through TreeBuilder.feed+close (whole, and in three pieces cut in front of aggregate start tags), OFXTree.parse, and the parse of an OFXTree that has read a well-formed file before; + files parsed by path: every same-length fault of the documents written over the well-formed file "
        "(same path, size and modification time) after that one was parsed; distinct_nontrivial = malformed texts",
        "bodies": tally.counts.get("bodies", 0),
        "skipped_still_well_formed": tally.counts.get("still-well-formed", 0),
        "exhaustive": True,
    }
    return {"tally": tally, "coverage": cov, "assumptions": ["a parse returning None (empty body) is not a tree", "stray text directly after a *start* tag is character data, not a fault of this list"]}


def _size(term):
    tag, body = term
    return 1 if isinstance(body, str) else 1 + sum(_size(c) for c in body)


def replay(ctx, case):
    t = Tally()
    if case.get("route") == "bytes":
        from ofxtools.Parser import OFXTree

        try:
            r = OFXTree().parse(io.BytesIO(bytes.fromhex(case["hex"])))
        except Exception as e:
            print("  refused:", repr(e)[:200])
            return False
        print("  accepted:", r)
        return r is not None
    if case.get("route") == "path":
        import os
        import tempfile

        from ofxtools.Parser import OFXTree

        sg = case["rendering"] == "sgml"
        head = H.render_v1(H.v1_fields(102, encoding="UTF-8", charset="NONE")) if sg else H.render_v2(H.v2_fields(203))
        with tempfile.TemporaryDirectory(prefix="vf-c08-") as d:
            path = os.path.join(d, "f.ofx")
            open(path, "wb").write((head + case["valid"]).encode("utf_8"))
            st = os.stat(path)
            OFXTree().parse(path)
            open(path, "wb").write((head + case["text"]).encode("utf_8"))
            os.utime(path, ns=(st.st_atime_ns, st.st_mtime_ns))
            try:
                OFXTree().parse(path)
            except Exception as e:
                print("  refused:", repr(e)[:200])
                return False
            print("  accepted the faulty file at the path that held the well-formed one")
            return True
    check_text(t, case["rendering"], case.get("kind", "replay"), case["text"], lambda f: case)
    for sig, (n, c, d) in sorted(t.fails.items()):
        print(" ", sig, "|", d)
    return bool(t.fails)
