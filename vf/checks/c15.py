"""C15  The cached FI profile is always whole, the newest, and from the right server.

Four explorations over OFXClient.request_profile() with the in-process HTTP seam (vf.fakehttp), the file-operation
observer (vf.vfs) and the thread scheduler (vf.sched):
 1. histories: BFS over sequences of server behaviours x {same, fresh} client instance against a dict-based model of
    the cache (every explored path is a model trace validated step by step against the implementation);
 2. crash points: every crash state of every cache-writing step -> recovery by a fresh client must succeed;
 3. schedules: 2 (thorough: 3) concurrent request_profile calls on one client, all interleavings of their file/HTTP
    points within the preemption bound -> cache whole, later request succeeds;
 4. two servers: pairs of clients (or one re-pointed client) with equal/different ORG/FID/URL, both orders.
"""
import datetime
import os
import shutil
import urllib.error
import warnings

from vf import fakehttp as F
from vf import sched, vfs, xstate
from vf.core import vacuous, HarnessError, Tally, private_xdg

LEVEL = "model_checking"
UTC = datetime.timezone.utc
BEHAVIOURS = ["newer", "same", "older", "uptodate", "errstatus", "garbage", "neterror"]
URL = "http://ofx.bank-a.example/ofx"
EPOCH1990 = 631152000000


ZONES = (0, -210, 345, -570)  # minutes: the server stamps successive profile versions in different zones (UTC, Newfoundland, Nepal, Marquesas)


def vdate(v):
    """the date of profile version v: one day apart, the same instants whatever the zone they are written in"""
    d = datetime.datetime(2020, 1, 1, tzinfo=UTC) + datetime.timedelta(days=v)
    return d.astimezone(datetime.timezone(datetime.timedelta(minutes=ZONES[v % 4])))


def vms(v):
    return 1577836800000 + v * 86400000


def cache_dir():
    from ofxtools import config

    return config.DATADIR / "fiprofiles"


def wipe_cache():
    d = cache_dir()
    if d.exists():
        shutil.rmtree(d)


def mk_client(org="ORG15", fid="15", url=URL, **kw):
    from ofxtools.Client import OFXClient

    return OFXClient(url, userid="u", org=org, fid=fid, **kw)


def cache_files():
    d = cache_dir()
    if not d.exists():
        return {}
    return {p.name: p.read_bytes() for p in sorted(d.iterdir()) if p.is_file()}


URLS = {"bank": URL, "cc": URL, "inv": URL}


# ---------------------------------------------------------------------------------------------
# 1. histories
# ---------------------------------------------------------------------------------------------
class HistSystem:
    def __init__(self):
        self.net = F.Net()
        self.net.install()

    def replay(self, history):
        wipe_cache()
        net = self.net
        net.log = []
        model = {"cache": None, "newest": -1}  # cache: (version, bytes)
        client = mk_client()
        other = mk_client()  # a second live client of the same institution (another thread's, another window's)
        calls_on_instance = 0
        calls_on_other = 0
        fails = []
        sent_bodies = []
        for i, (beh, inst) in enumerate(history):
            last = i == len(history) - 1
            if inst == "fresh":
                client = mk_client()
                calls_on_instance = 0
            cached = model["cache"]
            state = {}

            def handler(ex, beh=beh, cached=cached, state=state):
                rq = F.read_request(ex.body)
                state["dtprofup_ms"] = rq.get("dtprofup_ms")
                state["kind"] = rq["kind"]
                uid = rq["trnuids"][0]
                cv = cached[0] if cached else None
                if beh == "newer":
                    v = model["newest"] + 1
                elif beh == "same":
                    v = cv if cv is not None else max(model["newest"], 0)
                elif beh == "older":
                    v = cv - 1 if cv is not None and cv > 0 else 0
                else:
                    v = None
                state["v"] = v
                if beh == "neterror":
                    raise urllib.error.URLError("connection refused (scripted)")
                if beh == "garbage":
                    return F.ok(b"<html><body>Service unavailable</body></html>")
                if beh == "uptodate":
                    return F.ok(F.profile_response(uid, None, {}, status=1))
                if beh == "errstatus":
                    return F.ok(F.profile_response(uid, None, {}, status=2000))
                body = F.profile_response(uid, vdate(v), URLS, padding=(len(history) + i) % 4, form="xml" if i % 2 == 0 else "sgml")
                state["body"] = body
                return F.ok(body)

            net.handler = handler
            before = cache_files()
            n0 = len(net.log)
            try:
                with warnings.catch_warnings():
                    warnings.simplefilter("ignore")
                    ret = (other if inst == "other" else client).request_profile()
                    data = ret.read()
                err = None
            except Exception as e:
                data, err = None, e
            if inst == "other":
                calls_on_other += 1
            else:
                calls_on_instance += 1
            after = cache_files()
            # ---- model step
            cv = cached[0] if cached else None
            v = state.get("v")
            expect_ok = None
            new_cache = cached
            if "kind" not in state:
                # the request never reached the server (the client failed before sending): nothing changes in the model; the
                # missing exchange is reported below
                expect_ok = False
            elif beh in ("newer", "same"):
                expect_ok = True
                new_cache = (v, state.get("body"))
            elif beh == "older":
                if cv is None or v >= cv:
                    expect_ok = True  # nothing newer is held: the profile is acceptable
                    new_cache = (v, state.get("body"))
                else:
                    expect_ok = False
            elif beh == "uptodate":
                expect_ok = cached is not None
            else:
                expect_ok = False
            if expect_ok and new_cache is not cached:
                model["cache"] = new_cache
                model["newest"] = max(model["newest"], new_cache[0])
            if last:
                case = {"part": "history", "history": [list(h) for h in history]}
                sig = f"C15|history|{beh}|{'cached' if cached else 'no-cache'}"

                def fail(kind, detail):
                    fails.append((f"{sig}|{kind}", case, detail))

                exch = net.log[n0:]
                if len(exch) != 1:
                    fail("wrong-number-of-requests", str(exch))
                else:
                    want = vms(cv) if cv is not None else EPOCH1990
                    if state.get("dtprofup_ms") != want:
                        fail("asked-with-wrong-date", f"DTPROFUP {state.get('dtprofup_ms')} but the profile held is {'version %d = %d' % (cv, want) if cv is not None else 'none (1990-01-01 expected)'}")
                if expect_ok:
                    if err is not None:
                        fail(f"call-fails-{type(err).__name__}", f"{type(err).__name__}: {str(err)[:200]}")
                    else:
                        want_bytes = model["cache"][1] if model["cache"] else None
                        if data != want_bytes:
                            fail("returned-not-the-newest-profile", f"returned {len(data or b'')} bytes, expected the {len(want_bytes or b'')} bytes of version {model['cache'][0] if model['cache'] else None}")
                        if after != ({"ORG15-15.profrs": model["cache"][1]} if model["cache"] else {}):
                            fail("cache-is-not-the-newest-profile", f"cache files {[(k, len(v)) for k, v in after.items()]}")
                else:
                    if err is None and not (cached is not None and data == cached[1]):
                        fail("bad-answer-accepted", f"call returned {len(data or b'')} bytes")
                    if after != before:
                        fail("failed-call-changed-the-cache", f"before {[(k, len(v)) for k, v in before.items()]} after {[(k, len(v)) for k, v in after.items()]}")
        key = (model["cache"] is not None, calls_on_instance, calls_on_other)
        return key, fails


def hist_chunk(chunk):
    private_xdg()
    s = HistSystem()
    try:
        return [(h, ) + tuple(s.replay(h)) for h in chunk]
    finally:
        s.net.uninstall()


def hist_chunk_debug(chunk):
    """the same histories with the library's loggers at DEBUG (what `ofxget -vv` configures)"""
    from vf.checks import c06

    with c06.verbose_logging({"loglevel": "DEBUG"}):
        out = hist_chunk(chunk)
    return [(h, key, [(sig + "|logging-at-DEBUG", case, detail) for sig, case, detail in fails]) for h, key, fails in out]


def part_histories(args, workers=1):
    depth, = args
    t = Tally()
    events = [(b, i) for b in BEHAVIOURS for i in ("same", "other", "fresh")]
    r = xstate.bfs_pool(workers, hist_chunk, events, depth, t)
    r2 = xstate.bfs_pool(workers, hist_chunk_debug, events, max(3, depth - 2), t)
    t.count("transitions", r2["transitions"])
    t.count("transitions-logging-at-DEBUG", r2["transitions"])
    t.count("states", r["states"])
    t.count("transitions", r["transitions"])
    for smp in r["samples"][:2]:
        t.sample({"part": "history", "history": smp[0], "state_key": smp[1]})
    return t


# ---------------------------------------------------------------------------------------------
# 2. crash points
# ---------------------------------------------------------------------------------------------
def honest_handler(current_v, log=None):
    def handler(ex):
        rq = F.read_request(ex.body)
        if rq["dtprofup_ms"] >= vms(current_v):
            return F.ok(F.profile_response(rq["trnuids"][0], None, {}, status=1))
        body = F.profile_response(rq["trnuids"][0], vdate(current_v), URLS, padding=1)
        if log is not None:
            log.append(body)
        return F.ok(body)

    return handler


def part_crash(args):
    scenario, granularity = args
    root = private_xdg()
    t = Tally()
    net = F.Net()
    net.install()
    obs = vfs.Observer(root)
    try:
        wipe_cache()
        bodies = []
        # prepare the state before the writing step
        if scenario != "first-write":
            net.handler = lambda ex: F.ok(_rec(bodies, F.profile_response(F.read_request(ex.body)["trnuids"][0], vdate(0), URLS, padding=3 if scenario == "overwrite-shorter" else 0)))
            mk_client().request_profile()
        initial = vfs.snapshot(root)
        pad = 0 if scenario == "overwrite-shorter" else 3
        net.handler = lambda ex: F.ok(_rec(bodies, F.profile_response(F.read_request(ex.body)["trnuids"][0], vdate(1), URLS, padding=pad, form="sgml")))
        obs.install()
        try:
            mk_client().request_profile()
        finally:
            obs.uninstall()
        log = list(obs.log)
        if not any(op[0] == "write" for op in log):
            raise HarnessError("the cache-writing step was not observed by the file seam")
        nstates = 0
        for label, files in vfs.crash_states(initial, log, granularity):
            nstates += 1
            t.count("evaluations")
            t.count("crash-states")
            wipe_cache()
            vfs.materialize(files, root, root)
            sent = []
            net.handler = honest_handler(1, sent)
            torn = "torn" in label
            case = {"part": "crash", "scenario": scenario, "label": label}
            try:
                with warnings.catch_warnings():
                    warnings.simplefilter("ignore")
                    data = mk_client().request_profile().read()
            except Exception as e:
                opn = int(label.split("-")[2])
                where = _where(log, opn)
                t.fail(f"C15|crash|{scenario}|{where}|recovery-raises-{type(e).__name__}", case, f"{label}: {type(e).__name__}: {str(e)[:150]}")
                continue
            whole = set(bodies) | set(sent)
            if data not in whole:
                t.fail(f"C15|crash|{scenario}|{_where(log, int(label.split('-')[2]))}|recovery-returns-mixed-content", case, f"{label}: {len(data)} bytes not one of the complete profiles")
                continue
            t.outcome("recovered-" + ("torn" if torn else "whole"))
        t.count("crash-scenarios")
        t.sample({"part": "crash", "scenario": scenario, "file_ops": [(op[0],) + tuple(str(x)[-40:] if not isinstance(x, bytes) else f"{len(x)}B" for x in op[1:]) for op in log], "crash_states": nstates})
    finally:
        net.uninstall()
    return t


def _rec(lst, body):
    lst.append(body)
    return body


def _where(log, opn):
    """describe the crash point by the operations around it"""
    prev = log[opn - 1][0] if opn > 0 else "start"
    nxt = log[opn][0] if opn < len(log) else "end"
    return f"between-{prev}-and-{nxt}"


# ---------------------------------------------------------------------------------------------
# 3. schedules
# ---------------------------------------------------------------------------------------------
FORMATS = [(203, False, None), (102, True, True), (102, False, False)]


def sched_one(scenario, nthreads, prefix, lines):
    """ONE execution of the schedule `prefix` (then default choices), in the calling process (a forked child): returns
    (choices, nenabled, running_enabled, fresh, failure-or-None, outcome)"""
    root = private_xdg()
    net = F.Net()
    net.install()
    obs = vfs.Observer(root)
    obs.install()
    holder = {}
    renderings = set()
    try:
        wipe_cache()

        def server(ex):
            rq = F.read_request(ex.body)
            form = "xml" if rq["version"] >= 200 else "sgml"
            if scenario == "mixed-answers" and rq["version"] >= 200:
                # this caller is told its profile is current; the other one gets a newer profile
                if rq["dtprofup_ms"] >= vms(0):
                    return F.ok(F.profile_response(rq["trnuids"][0], None, {}, status=1))
            v = 2 if scenario == "mixed-answers" else 1
            body = F.profile_response(rq["trnuids"][0], vdate(v), URLS, padding=rq["version"] % 4, form=form, pretty=(rq["version"] == 102))
            renderings.add(body)
            return F.ok(body)

        if scenario in ("with-old-cache", "mixed-answers"):
            net.handler = lambda ex: F.ok(_rec(holder.setdefault("old", []), F.profile_response(F.read_request(ex.body)["trnuids"][0], vdate(0), URLS, padding=2)))
            mk_client().request_profile()
        net.handler = server
        client = mk_client()

        def body(i):
            ver, pretty, close = FORMATS[i % len(FORMATS)]

            def f():
                with warnings.catch_warnings():
                    warnings.simplefilter("ignore")
                    return client.request_profile(version=ver, prettyprint=pretty, close_elements=close).read()

            return f

        prefixes = None
        if lines:
            import ofxtools.Client as _C

            prefixes = (os.path.realpath(_C.__file__),)
        sch = sched.Scheduler([body(i) for i in range(nthreads)], prefix, prefixes)
        obs.point = sch.point
        net.point = sch.point
        x = sch.run()
        obs.point = net.point = None
        whole = set(renderings) | set(holder.get("old", []))
        files = cache_files()
        fail = None
        outcome = None
        if x.deadlock:
            fail = ("deadlock", "no thread could run")
        if fail is None:
            for i, e in enumerate(x.errors):
                if e is not None:
                    fail = (f"concurrent-request-fails-{type(e).__name__}", f"thread {i}: {type(e).__name__}: {str(e)[:150]}")
                    break
        if fail is None:
            for i, r in enumerate(x.results):
                if r not in whole:
                    fail = ("concurrent-request-returns-mixed-content", f"thread {i} returned {len(r or b'')} bytes, whole profiles have {sorted(len(w) for w in whole)}")
                    break
        c = files.get("ORG15-15.profrs")
        if fail is None and c is None:
            fail = ("cache-missing-after-successful-requests", str(list(files)))
        if fail is None and c not in whole:
            fail = ("cache-holds-mixed-content", f"{len(c)} bytes, complete renderings have {sorted(len(w) for w in whole)}")
        if fail is None and scenario == "mixed-answers" and not any(c == r for r in renderings) and renderings:
            fail = ("newer-profile-not-cached", "a newer profile was received by one caller but the cache does not hold it")
        if fail is None:
            sent = []
            net.handler = honest_handler(2 if scenario == "mixed-answers" else 1, sent)
            try:
                with warnings.catch_warnings():
                    warnings.simplefilter("ignore")
                    data = mk_client().request_profile().read()
                if data not in whole | set(sent):
                    fail = ("later-request-returns-mixed-content", "")
            except Exception as e:
                fail = (f"later-request-raises-{type(e).__name__}", f"{type(e).__name__}: {str(e)[:150]}")
        if fail is None:
            outcome = "sched-ok-" + str(sorted(len(w) for w in whole).index(len(c)))
        return (list(x.choices), list(x.nenabled), list(x.running_enabled), list(x.fresh), fail, outcome)
    finally:
        obs.uninstall()
        net.uninstall()


def sched_exec(args):
    """one execution (in a forked child) of one schedule prefix -> (args, choices, nenabled, running_enabled, fresh, fail, outcome)"""
    scenario, nthreads, prefix, lines = args
    from vf.core import in_fork

    r = in_fork(lambda: sched_one(scenario, nthreads, list(prefix), lines))
    return (args,) + tuple(r)


def sched_chunk(chunk):
    return [sched_exec(a) for a in chunk]


def explore_schedules(ctx, tally, configs):
    """configs: [(scenario, nthreads, bound, lines)].  Level-synchronous iterative context bounding over the process pool:
    every execution runs in its own forked child; the children of an execution (alternatives at later points within the
    preemption bound) form the next level."""
    import multiprocessing as mp

    from vf.core import in_fork

    # determinism self-check per configuration: the default schedule twice in separate children
    for (sc, n, bound, lines) in configs:
        a = in_fork(lambda: sched_one(sc, n, [], lines))
        b = in_fork(lambda: sched_one(sc, n, [], lines))
        if a[:3] != b[:3] or a[4] != b[4]:
            raise HarnessError(f"schedule replay is not deterministic ({sc}, lines={lines}): {len(a[0])} vs {len(b[0])} points")
    bounds = {(sc, n, lines): bound for (sc, n, bound, lines) in configs}
    frontier = [(sc, n, (), lines) for (sc, n, bound, lines) in configs]
    per = {}
    with mp.get_context("fork").Pool(ctx.workers) as pool:
        while frontier:
            chunks = [frontier[i::ctx.workers * 4] for i in range(ctx.workers * 4)]
            chunks = [c for c in chunks if c]
            results = [r for rs in pool.map(sched_chunk, chunks) for r in rs]
            frontier = []
            for (args, choices, nenabled, running_enabled, fresh, fail, outcome) in results:
                scenario, nthreads, prefix, lines = args
                bound = bounds[(scenario, nthreads, lines)]
                tally.count("evaluations")
                tally.count("schedules")
                tally.count("sched-executions")
                key = (scenario, nthreads, lines)
                per[key] = per.get(key, 0) + 1
                tally.counts["points_max"] = max(tally.counts.get("points_max", 0), len(choices))
                case = {"part": "sched", "scenario": scenario, "threads": nthreads, "lines": lines, "schedule": choices}
                if fail:
                    tally.fail(f"C15|sched|{scenario}|{fail[0]}", case, fail[1])
                else:
                    tally.outcome(outcome)
                pre = 0
                costs = []
                for i, c in enumerate(choices):
                    costs.append(pre)
                    if c != 0 and running_enabled[i]:
                        pre += 1
                for i in range(len(prefix), len(choices)):
                    if nenabled[i] <= 1:
                        continue
                    cost = costs[i] + (1 if running_enabled[i] else 0)
                    if bound is not None and cost > bound:
                        continue
                    if lines and running_enabled[i] and not fresh[i]:
                        continue
                    for alt in range(1, nenabled[i]):
                        frontier.append((scenario, nthreads, tuple(choices[:i]) + (alt,), lines))
    for (sc, n, lines), cnt in sorted(per.items()):
        tally.sample({"part": "sched", "scenario": sc, "threads": n, "preemption_bound": bounds[(sc, n, lines)],
                      "points": "file/HTTP seams" + (" + every line of ofxtools/Client.py (first visits)" if lines else ""), "executions": cnt}, cap=12)


# ---------------------------------------------------------------------------------------------
# 4. two servers
# ---------------------------------------------------------------------------------------------
PAIRS = [
    ("distinct-org-fid", ("ORGA", "1"), ("ORGB", "2")),
    ("same-org-other-fid", ("ORGA", "1"), ("ORGA", "2")),
    ("dotted-org-other-fid", ("bank.com", "1001"), ("bank.com", "2002")),
    ("dotted-org-dotted-fid", ("a.b", "c.1"), ("a.b", "c.2")),
    ("org-with-dash", ("A-B", "C"), ("A", "B-C")),
    ("no-org-no-fid", (None, None), (None, None)),
    ("org-only-vs-org-and-fid", ("FIRST-TECH", None), ("FIRST", "TECH")),
    ("org-only-vs-fid-only", ("3101", None), (None, "3101")),
    ("fid-only-vs-other-fid", (None, "17"), (None, "18")),
]


def part_two_servers(args):
    private_xdg()
    t = Tally()
    net = F.Net()
    net.install()
    try:
        for name, a, b in PAIRS:
            for order in ((0, 1), (1, 0)):
                for how in ("client-per-server", "one-client-re-pointed"):
                    t.count("evaluations")
                    t.count("server-pairs")
                    wipe_cache()
                    cfgs = [dict(org=a[0], fid=a[1], url="http://ofx.first.example/ofx"), dict(org=b[0], fid=b[1], url="http://ofx.second.example/ofx")]
                    seen = {}
                    vers = {"http://ofx.first.example/ofx": 5, "http://ofx.second.example/ofx": 2}

                    def handler(ex):
                        rq = F.read_request(ex.body)
                        seen.setdefault(ex.url, []).append(rq["dtprofup_ms"])
                        v = vers[ex.url]
                        if rq["dtprofup_ms"] >= vms(v):
                            return F.ok(F.profile_response(rq["trnuids"][0], None, {}, status=1))
                        body = F.profile_response(rq["trnuids"][0], vdate(v), {"bank": ex.url}, padding=v % 4)
                        seen.setdefault("body:" + ex.url, []).append(body)
                        return F.ok(body)

                    net.handler = handler
                    case = {"part": "two-servers", "pair": name, "order": list(order), "how": how}
                    sig = f"C15|two-servers|{name}"
                    bad = False
                    shared = None
                    for idx in order:
                        c = cfgs[idx]
                        try:
                            with warnings.catch_warnings():
                                warnings.simplefilter("ignore")
                                if how == "client-per-server":
                                    cl = mk_client(org=c["org"], fid=c["fid"], url=c["url"])
                                elif shared is None:
                                    cl = shared = mk_client(org=c["org"], fid=c["fid"], url=c["url"])
                                else:
                                    # one client object used for a list of institutions: url / org / fid are plain attributes
                                    cl = shared
                                    cl.url, cl.org, cl.fid = c["url"], c["org"], c["fid"]
                                data = cl.request_profile().read()
                        except Exception as e:
                            t.fail(f"{sig}|request-raises-{type(e).__name__}", case, f"server {c['url']}: {type(e).__name__}: {str(e)[:120]}")
                            bad = True
                            break
                        if not seen.get(c["url"]):
                            t.fail(f"{sig}|request-not-sent-to-the-configured-server", case, f"{c['url']}: requests went to {sorted(k for k in seen if not k.startswith('body:'))}")
                            bad = True
                            break
                        asked = seen[c["url"]][-1]
                        if asked != EPOCH1990:
                            t.fail(f"{sig}|asked-with-other-servers-date", case, f"{c['url']} was asked with DTPROFUP {asked}, nothing from it is cached")
                            bad = True
                            break
                        if data not in seen.get("body:" + c["url"], []):
                            t.fail(f"{sig}|returned-other-servers-profile", case, c["url"])
                            bad = True
                            break
                    if not bad:
                        t.outcome("two-servers-ok")
    finally:
        net.uninstall()
    return t


def dispatch(chunk):
    t = Tally()
    for part, args in chunk:
        t.merge({"hist": part_histories, "crash": part_crash, "two": part_two_servers}[part](args))
    return t


def run(ctx):
    jobs = []
    for sc in ("first-write", "overwrite-longer", "overwrite-shorter"):
        jobs.append(("crash", (sc, "coarse" if ctx.quick else "fine")))
    sconf = []
    for sc in ("no-cache", "with-old-cache", "mixed-answers"):
        sconf.append((sc, 2, 2 if ctx.quick else None, False))
        # also between the statements of request_profile itself (one preemption, at the first visit of each line)
        if ctx.thorough or sc != "no-cache":
            sconf.append((sc, 2, 1, True))
    if ctx.thorough:
        sconf.append(("no-cache", 3, 2, False))
        sconf.append(("with-old-cache", 3, 2, False))
    jobs.append(("two", ()))
    tally = ctx.pmap(dispatch, jobs, chunk=1)
    tally.merge(part_histories((5 if ctx.quick else 7,), ctx.workers))
    explore_schedules(ctx, tally, sconf)
    pm = tally.counts.pop("points_max", 0)
    if tally.counts.get("transitions", 0) < 100 or tally.counts.get("crash-states", 0) < 10 or tally.counts.get("schedules", 0) < 20:
        vacuous(tally, f"vacuous: {tally.counts}")
    cov = {
        "states": tally.counts.get("states", 0),
        "transitions": tally.counts.get("transitions", 0),
        "traces_validated_against_impl": tally.counts.get("transitions", 0),
        "samples": tally.samples[:6],
        "crash_states": tally.counts.get("crash-states", 0),
        "schedules": tally.counts.get("schedules", 0),
        "server_pairs": tally.counts.get("server-pairs", 0),
        "max_points_per_schedule": pm,
        "schedule_exploration_capped": bool(tally.counts.get("capped")),
        "rule": f"(1) BFS to depth {5 if ctx.quick else 7} over 21 events (7 server behaviours x (the current client / a second live client of the same institution / a fresh instance replacing the current one)), model = dict cache, key = (cache present, calls made on the "
        "current instance, calls made on the second client) so that hidden per-instance state cannot hide behind de-duplication; every transition replays the history on the real request_profile and compares the request's "
        "DTPROFUP, success/failure, returned bytes and cache file with the model; the same search two levels shallower with the library's loggers at DEBUG; (2) 3 cache-writing scenarios (first write, overwrite with longer, with shorter) x every crash state "
        f"(every prefix of the file-operation log x torn prefixes of pending writes, {'coarse' if ctx.quick else 'every byte'}) -> recovery by a fresh client; (3) 2 concurrent "
        f"request_profile calls on one client (no cache / an older cache / an older cache with one caller told 'up to date' and the other sent a newer profile), {'preemption bound 2' if ctx.quick else 'all interleavings'} "
        "of their file and HTTP points, and one preemption at the first visit of every line of ofxtools/Client.py; every execution runs in its own forked process"
        + ("; 3 calls with bound 2" if ctx.thorough else "") + "; (4) 9 ORG/FID pairs (incl. clients with only an ORG or only a FID) x both orders x {a client per server, one client object re-pointed by assigning url/org/fid} against two servers",
        "exhaustive": True,
    }
    return {"tally": tally, "coverage": cov, "assumptions": [
        "process crashes (any prefix of the operation log, torn last write), not power failures reordering metadata and data",
        "threads switch only at file-operation and HTTP seams; ThreadPoolExecutor itself is not driven, its job bodies are",
        "equal ORG/FID on two different URLs is demanded only where the property is explicit (both without ORG/FID)"]}


def replay(ctx, case):
    part = case["part"]
    if part == "history":
        private_xdg()
        s = HistSystem()
        try:
            key, fails = s.replay(tuple(tuple(h) for h in case["history"]))
        finally:
            s.net.uninstall()
        for sig, c, d in fails:
            print(" ", sig, "|", d)
        return bool(fails)
    if part == "crash":
        t = part_crash((case["scenario"], "coarse"))
    elif part == "sched":
        from vf.core import in_fork

        t = Tally()
        r = in_fork(lambda: sched_one(case["scenario"], case["threads"], list(case["schedule"]), bool(case.get("lines"))))
        if r[4]:
            t.fail(f"C15|sched|{case['scenario']}|{r[4][0]}", case, r[4][1])
    else:
        t = part_two_servers(())
    for sig, (n, c, d) in sorted(t.fails.items()):
        print(" ", sig, "|", d)
    return bool(t.fails)
