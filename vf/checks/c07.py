"""C07  Unknown and vendor-specific tags never change or break the converted result.

classes x baselines x every child position of the root aggregate (and one level deeper) x unknown item kinds x
three routes (element tree -> from_etree; XML bytes and SGML bytes -> parse().convert()); plus two insertions at once
at every pair of positions.  Oracle: no exception; conversion equals the conversion of the document without them.
"""
import itertools
import warnings

from vf import ref_schema as S
from vf import ref_sgml
from vf import universe as U
from vf import wire
from vf.checks.c04 import to_et
from vf.checks import c06
from vf.core import vacuous, HarnessError, Tally

LEVEL = "fault_enumeration"


def items_for(sdoc):
    """unknown items (sgml terms) for insertion into aggregate sdoc"""
    known = sdoc[1][0] if sdoc[1] else ("KNOWN", "1")
    declared = declared_tags(sdoc[0])
    elsewhere = next(n for n in ("NAME", "MEMO", "CODE", "SEVERITY", "TRNUID", "ACCTID", "CURDEF", "DTSERVER", "FITID", "LANGUAGE") if n not in declared)
    elsewhere2 = next(n for n in ("STATUS", "BANKACCTFROM", "CURRENCY", "SECID", "INVTRAN", "LEDGERBAL", "FI") if n not in declared)
    return [
        ("element-known-elsewhere", (elsewhere, "1")),
        ("aggregate-known-elsewhere", (elsewhere2, [("CODE", "0"), ("SEVERITY", "INFO")])),
        ("digit-initial-aggregate-with-known-content", ("1ST.X", [known])),
        ("digit-initial-element", ("2FA", "1")),
        ("data-element", ("FOO", "1")),
        ("empty-element", ("FOO", [])),
        ("aggregate", ("FOO", [("BAR", "1"), ("BAZ", [("QUX", "x y")])])),
        ("aggregate-with-known-content", ("FOO", [known])),
        ("vendor-element", ("INTU.BID", "3")),
        ("vendor-aggregate", ("INTU.X", [("Y", "1")])),
    ]


def extra_items_for(target):
    """[(label, item, positions)]: (a) an unknown aggregate - plain and vendor-prefixed - wrapping a copy of each child of
    the target, inserted right in front of that child and at the very beginning (a hook that looks for a tag by name must
    not find the copy); (b) an unknown element named like each attribute of the target's class that is not one of its
    declared children (properties, methods, list API), in the middle"""
    import re

    out = []
    n = len(target[1])
    for j, child in enumerate(target[1]):
        out.append((f"aggregate-wrapping-copy-of-child:{j}", ("FOO", [child]), sorted({0, j})))
        out.append((f"vendor-aggregate-wrapping-copy-of-child:{j}", ("INTU.X", [child]), sorted({0, j})))
    # (c) unknown aggregates whose content is vendor-prefixed itself (a pass that strips dotted tags must only look at
    # the children of the aggregate it is grooming)
    out.append(("aggregate-with-vendor-content", ("XYZ", [("INTU.BID", "1")]), sorted({0, n // 2})))
    out.append(("vendor-aggregate-with-vendor-content", ("INTU.EXT", [("INTU.BID", "1"), ("FOO", [("INTU.Y", "2")])]), sorted({0, n // 2})))
    try:
        cls = U.cls_by_name(target[0])
    except Exception:
        return out
    declared = declared_tags(target[0])
    # (d) a vendor-prefixed and a longer tag ending in the name of each declared child - present in this instance or not
    present = {child[0]: j for j, child in enumerate(target[1])}
    for tag in sorted(declared - {target[0]}):
        pos = sorted({present.get(tag, n // 2), n})
        out.append((f"vendor-prefixed-name-of-declared-child:{tag}", ("INTU." + tag, "9.9"), pos))
        if "FWD" + tag not in declared:
            out.append((f"name-ending-in-name-of-declared-child:{tag}", ("FWD" + tag, "9.9"), pos[:1]))
    for name in sorted(dir(cls)):
        tag = name.upper()
        if name.startswith("_") or tag in declared or not re.fullmatch(r"[A-Z][A-Z0-9]*", tag):
            continue
        out.append((f"element-named-like-attribute:{tag}", (tag, "1"), [n // 2]))
    return out


def item_by_label(target, label):
    if label.endswith("-again"):
        label = label[: -len("-again")]
    d = dict(items_for(target))
    if label in d:
        return d[label]
    return next(item for (lab, item, positions) in extra_items_for(target) if lab == label)


def names_in(sterm, out=None):
    out = set() if out is None else out
    out.add(sterm[0])
    if not isinstance(sterm[1], str):
        for ch in sterm[1]:
            names_in(ch, out)
    return out


def declared_tags(clsname):
    out = set()
    for c in S.children(U.cls_by_name(clsname)):
        out.add(c.name.upper())
        out.add(S.tag_of(c.name))
        if c.target is not None:
            out.add(c.target.__name__)
    return out


def insert_at(sdoc, path, pos, item):
    """insert item as child #pos of the aggregate at `path` (list of child indices from the root)"""
    tag, body = sdoc
    if not path:
        nb = list(body)
        nb.insert(pos, item)
        return (tag, nb)
    nb = list(body)
    nb[path[0]] = insert_at(body[path[0]], path[1:], pos, item)
    return (tag, nb)


def doc_in_member_order(term):
    """document of a term whose repeated members are written in the order of the python list (all of them at the
    position of the first repeated kind) - for classes whose repeated kinds are adjacent that is a valid document"""
    name, kw, members = term
    cls = U.cls_by_name(name)
    base = wire.doc((name, kw, []))
    chs = S.children(cls)
    lk = [c for c in chs if c.kind in ("lagg", "lelem")]
    first = chs.index(lk[0])
    before = sum(1 for c in chs[:first] if c.kind in ("elem", "sub") and c.name in kw)
    body = list(base[1])
    mdocs = []
    le = next((c for c in lk if c.kind == "lelem"), None)
    for m in members:
        if S._isterm(m):
            mdocs.append(wire.doc(m))
        else:
            from vf import ref_types as R

            mdocs.append((le.name.upper(), R.write_value(le.typ, m)))
    body[before:before] = mdocs
    return (name, body)


def convert_route(route, sdoc):
    from ofxtools.models.base import Aggregate

    with warnings.catch_warnings(record=True) as w:
        warnings.simplefilter("always")
        if route == "tree":
            inst = Aggregate.from_etree(to_et(sdoc))
        else:
            inst = wire.lib_convert(wire.to_bytes(sdoc, route))
    return inst, [x.category.__name__ for x in w]


def do_case(t, clsname, base_terms, route, sdoc, mutated, labels, case):
    t.count("evaluations")
    key = (route,)
    try:
        inst, warns = convert_route(route, mutated)
    except Exception as e:
        t.fail(f"C07|{clsname}|{route}|{'+'.join(labels)}|rejected-{type(e).__name__}", case, f"{type(e).__name__}: {str(e)[:250]}")
        return
    d = S.diff_terms(base_terms[route], S.inst_to_term(inst))
    if d:
        t.fail(f"C07|{clsname}|{route}|{'+'.join(labels)}|model-changed", case, d)
        return
    t.outcome("ok-" + route)
    t.outcome("warn" if "UnknownTagWarning" in warns else "silent")


ROUTES = ("tree", "xml", "sgml")


def agg_paths(sdoc, depth):
    """paths (lists of child indices) of aggregates inside sdoc down to `depth` levels below the root"""
    out = [[]]
    if depth > 0:
        for i, ch in enumerate(sdoc[1]):
            if not isinstance(ch[1], str):
                for p in agg_paths(ch, depth - 1):
                    out.append([i] + p)
    return out


def sub_at(sdoc, path):
    for i in path:
        sdoc = sdoc[1][i]
    return sdoc


def work(chunk):
    t = Tally()
    for clsname, basekinds, depth, pairs in chunk:
        thorough = depth >= 1
        cls = U.cls_by_name(clsname)
        deep = depth
        if clsname in ("MAILRQ", "MAILRS", "MFINFO", "STOCKINFO", "SECLIST", "MAIL") or any(c.kind == "sub" and c.target.__name__ in ("MAIL", "MFINFO", "STOCKINFO") for c in S.children(cls)):
            deep = max(depth, 1)
        for bk in basekinds:
            term = {"MIN": U.MIN, "MAXS": U.MAXS, "MAXL": U.MAXL}[bk](cls)
            if term is None:
                continue
            sdoc = wire.doc(term) if bk != "MAXL" else doc_in_member_order(term)
            base_terms = {}
            okbase = True
            for r in ROUTES:
                try:
                    inst, _ = convert_route(r, sdoc)
                    base_terms[r] = S.inst_to_term(inst)
                except Exception as e:
                    t.fail(f"C07|{clsname}|{r}|baseline|clean-document-refused", {"cls": clsname, "base": bk}, repr(e)[:200])
                    okbase = False
            if not okbase:
                continue
            used = names_in(sdoc)
            for path in agg_paths(sdoc, deep):
                target = sub_at(sdoc, path)
                npos = len(target[1]) + 1
                for (label, item) in items_for(target):
                    if bk == "MAXS" and not thorough and label in ("aggregate-known-elsewhere", "digit-initial-element", "empty-element", "aggregate-with-known-content"):
                        continue  # quick tier: these four item kinds only on the MIN and MAXL documents
                    if item[0] in declared_tags(target[0]):
                        raise HarnessError(f"unknown-item name {item[0]} is declared by {target[0]}")
                    for pos in range(npos):
                        mutated = insert_at(sdoc, path, pos, item)
                        case = {"cls": clsname, "base": bk, "path": path, "inserts": [[pos, label]]}
                        lab = [label] + (["nested"] if path else [])
                        for r in ROUTES:
                            do_case(t, clsname, base_terms, r, sdoc, mutated, lab, dict(case, route=r))
                        t.count("insertions")
                if bk != "MAXL":
                    for (label, item, positions) in extra_items_for(target):
                        for pos in positions:
                            mutated = insert_at(sdoc, path, pos, item)
                            case = {"cls": clsname, "base": bk, "path": path, "inserts": [[pos, label]]}
                            lab = [label.split(":")[0]] + (["nested"] if path else [])
                            for r in ROUTES:
                                do_case(t, clsname, base_terms, r, sdoc, mutated, lab, dict(case, route=r))
                            t.count("insertions")
            if bk == "MIN" or (bk == "MAXS" and deep > depth):
                # once more with the library's loggers at DEBUG: the vendor-prefixed items at every position of the root
                with c06.verbose_logging({"loglevel": "DEBUG"}):
                    for (label, item) in items_for(sdoc):
                        if not label.startswith("vendor-") and deep <= depth:
                            continue
                        for pos in range(len(sdoc[1]) + 1):
                            mutated = insert_at(sdoc, [], pos, item)
                            case = {"cls": clsname, "base": bk, "path": [], "inserts": [[pos, label]], "logging": "DEBUG"}
                            for r in ROUTES:
                                do_case(t, clsname, base_terms, r, sdoc, mutated, [label, "logging-at-DEBUG"], dict(case, route=r))
                            t.count("insertions")
            if pairs and bk == "MIN":
                items = items_for(sdoc)
                npos = len(sdoc[1]) + 1
                combos = [(4, 8), (8, 9), (8, 8), (4, 6), (9, 4), (0, 2), (8, -8), (9, -9), (4, -4)]  # (item index, item index); negative: the very same item again
                for p1 in range(npos):
                    for p2 in range(p1, npos):
                        for (i1, i2) in combos:
                            l1, it1 = items[i1]
                            l2, it2 = items[abs(i2)]
                            if i1 == i2:
                                it2 = (it2[0].replace("BID", "USERID"), it2[1])
                            if i2 < 0:
                                l2 = l2 + "-again"
                            m = insert_at(sdoc, [], p2, it2)
                            m = insert_at(m, [], p1, it1)
                            case = {"cls": clsname, "base": bk, "path": [], "inserts": [[p1, l1], [p2, l2]]}
                            for r in ROUTES:
                                do_case(t, clsname, base_terms, r, sdoc, m, ["two", l1, l2], dict(case, route=r))
                            t.count("insertions")
        t.count("classes")
    return t


def run(ctx):
    classes = S.all_classes()
    jobs = []
    for c in classes:
        if ctx.quick:
            jobs.append((c.__name__, ("MIN", "MAXS", "MAXL"), 0, True))
        else:
            jobs.append((c.__name__, ("MIN", "MAXS", "MAXL"), 1, True))
    jobs.sort(key=lambda j: -len(S.children(U.cls_by_name(j[0]))))
    tally = ctx.pmap(work, jobs, chunk=1)
    if tally.counts.get("insertions", 0) < 20000 or tally.counts.get("classes") != len(classes):
        vacuous(tally, f"vacuous: {tally.counts}")
    if not tally.fails:
        for o in ("ok-tree", "ok-xml", "ok-sgml", "warn", "silent"):
            if o not in tally.outcomes:
                vacuous(tally, f"vacuous: {o} never observed")
    sd = wire.doc(U.MIN(U.cls_by_name("STATUS")))
    tally.sample({"clean": ref_sgml.render(sd), "with_insertion": ref_sgml.render(insert_at(sd, [], 1, ("INTU.BID", "3")))})
    cov = {
        "evaluations": tally.counts.get("evaluations", 0),
        "distinct_nontrivial": tally.counts.get("insertions", 0),
        "rule": "every class x {MIN, MAXS} document x every child position of the root aggregate"
        + (" and of every aggregate one level below it" if ctx.thorough else " (one level deeper for the classes around MAIL/MFINFO/STOCKINFO)") +
        " x 10 unknown items (element / aggregate whose name is a tag of OTHER classes, digit-initial aggregate wrapping a known child, digit-initial element, data element, empty "
        "element, aggregate with nested content, aggregate wrapping a known child, vendor-prefixed element, vendor-prefixed aggregate) x 3 routes; + an unknown and a vendor aggregate wrapping a copy of each child, in front of that child and at the beginning; + an unknown element named like every non-child attribute of the class (properties, methods, list API); + on MIN every pair of positions x 6 item pairs (incl. two vendor tags, the very same unknown / vendor item twice, same and different positions); the vendor items again on MIN with the loggers at DEBUG; distinct_nontrivial = distinct "
        "(document, insertion) pairs, evaluations = those x routes",
        "classes": tally.counts.get("classes", 0),
        "exhaustive": True,
    }
    return {"tally": tally, "coverage": cov, "assumptions": ["documents are rendered by the reference renderer; unknown names FOO/BAR/BAZ/QUX/INTU.* are checked not to be declared by the class",
                                                              "warnings are recorded, not required"]}


def replay(ctx, case):
    t = Tally()
    cls = U.cls_by_name(case["cls"])
    term = {"MIN": U.MIN, "MAXS": U.MAXS, "MAXL": U.MAXL}[case["base"]](cls)
    sdoc = wire.doc(term) if case["base"] != "MAXL" else doc_in_member_order(term)
    m = sdoc
    for pos, label in reversed(case["inserts"]):
        m = insert_at(m, case["path"], pos, item_by_label(sub_at(sdoc, case["path"]), label))
    r = case.get("route", "tree")
    inst, _ = convert_route(r, sdoc)
    print(" document:", ref_sgml.render(m))
    with c06.verbose_logging({"loglevel": case.get("logging")}):
        do_case(t, case["cls"], {r: S.inst_to_term(inst)}, r, sdoc, m, ["replay"], case)
    for sig, (n, c, d) in sorted(t.fails.items()):
        print(" ", sig, "|", d)
    return bool(t.fails)
