"""C06  A composed request says exactly what the caller asked, in every configuration.

client configurations x request lists (all sequences of length 0..3 over the five statement request kinds, plus
account-info, profile and tax requests), all dryrun=True.  The bytes are read (a) by the strict reference reader +
reference type rules and (b) by the library itself, and both are compared with the expected request computed from the
caller's arguments (vf ref_client logic below).
"""
import datetime
import io
import itertools
import logging
import time
import warnings

from vf import ref_header as H
from vf import ref_schema as S
from vf import ref_sgml
from vf import ref_types as R
from vf import universe as U
from vf.core import vacuous, HarnessError, Tally, deviations

LEVEL = "exploration"

VERSIONS = [203, 102, 103, 151, 160, 200, 201, 202, 210, 211, 220]
KINDS = ["StmtRq", "CcStmtRq", "InvStmtRq", "StmtEndRq", "CcStmtEndRq"]
ACCTIDS = ["acct0", "a&b1", "c<d2", "e>f3", "g\"h'4"]
ACCTTYPES = ["CHECKING", "SAVINGS", "MONEYMRKT", "CREDITLINE"]
UTC = datetime.timezone.utc


def tz(m):
    return datetime.timezone(datetime.timedelta(minutes=m))


DATES = [None, datetime.datetime(2024, 1, 31, 0, 0, 0, tzinfo=UTC), datetime.datetime(2023, 12, 31, 23, 30, 0, 5000, tzinfo=tz(-330)), datetime.datetime(2024, 3, 1, 0, 0, 1, tzinfo=tz(840)),
         datetime.datetime(2024, 2, 29, 23, 45, 0, tzinfo=tz(-30))]
# two dates in ONE zone object whose offset depends on the date (what zoneinfo / dateutil zones are): a winter start and a
# summer end in one request, and in requests composed one after the other
from vf.universe import SeasonTZ  # noqa: E402

_NY = SeasonTZ(-300, -240, ("EST", "EDT"))
DATES += [datetime.datetime(2024, 1, 15, 9, 30, 0, tzinfo=_NY), datetime.datetime(2024, 7, 15, 9, 30, 0, tzinfo=_NY)]
PRINTABLE = "".join(chr(c) for c in range(33, 127))  # without the blank, which is put in the middle below
BANKID = "123456789"
BROKERID = "broker.example.com"
URL = "http://ofx.example.com/ofx"


def credentials(seed):
    rot = seed % len(PRINTABLE)
    chars = PRINTABLE[rot:] + PRINTABLE[:rot]
    user = chars[:15] + " " + chars[15:31]
    pw = chars[31:60] + " " + chars[60:]
    return user, pw


V1S = [102, 103, 151, 160]
V2S = [203, 200, 201, 202, 210, 211, 220]
CONFIG_SPACE = [
    # wire form as ONE dimension, so that every form is one deviation away from the default
    ("form", [(2, False, True), (2, True, True), (1, False, True), (1, True, True), (1, False, False), (1, True, False), (2, False, False), (2, True, False)]),
    ("vidx", [0, 1, 2, 3, 4, 5, 6]),
    ("fi", [None, ("ORGONLY", None), ("Org & Co <1>", "fid>9")]),
    ("clientuid", ["CLIENT-UID-0123456789", None]),  # set by default: the version-103 threshold is then two deviations away
    ("app", [None, ("MYAPP", "0001")]),
    ("language", [None, "FRA"]),
    ("creds", ["plain", "printable", "latin"]),
    # the process's logging configuration (ofxget -vv, or a host application's): what is composed must not depend on it
    ("loglevel", [None, "DEBUG"]),
    # how the configuration reaches the client: constructor arguments, or plain attribute assignment (what the constructor
    # itself does) on a client built for another institution that has already composed a request
    ("configured", ["constructor", "assignment"]),
]


class _Sink(logging.Handler):
    """formats every record (so lazily formatted arguments are evaluated) and discards it"""

    def emit(self, record):
        self.format(record)


class verbose_logging:
    def __init__(self, cfg):
        self.on = bool(cfg.get("loglevel"))

    def __enter__(self):
        if self.on:
            self.lg = logging.getLogger("ofxtools")
            self.old = self.lg.level
            self.h = _Sink()
            self.lg.addHandler(self.h)
            self.lg.setLevel(logging.DEBUG)
            self.prop, self.lg.propagate = self.lg.propagate, False

    def __exit__(self, *a):
        if self.on:
            self.lg.setLevel(self.old)
            self.lg.removeHandler(self.h)
            self.lg.propagate = self.prop


def configs(k):
    space = [vals for _, vals in CONFIG_SPACE]
    seen = set()
    for point in deviations(space, k):
        raw = {name: vals[i] for (name, vals), i in zip(CONFIG_SPACE, point)}
        major, pretty, close = raw.pop("form")
        vs = V1S if major == 1 else V2S
        cfg = dict(raw, version=vs[raw.pop("vidx") % len(vs)], pretty=pretty, close=close)
        cfg.pop("vidx", None)
        key = repr(sorted(cfg.items(), key=lambda kv: kv[0]))
        if key in seen:
            continue
        seen.add(key)
        yield cfg


def make_client(cfg, seed):
    from ofxtools.Client import OFXClient

    user, pw = ("jdoe", "t0ps3kr1t") if cfg["creds"] == "plain" else (("j\u00fcrgen-\u00f1", "p\u00e4ssw\u00f6rd-\u00e9") if cfg["creds"] == "latin" else credentials(seed))
    kw = dict(userid=user, version=cfg["version"], prettyprint=cfg["pretty"], close_elements=cfg["close"], bankid=BANKID, brokerid=BROKERID)
    if cfg["fi"]:
        kw["org"], kw["fid"] = cfg["fi"]
    if cfg["clientuid"]:
        kw["clientuid"] = cfg["clientuid"]
    if cfg["app"]:
        kw["appid"], kw["appver"] = cfg["app"]
    if cfg["language"]:
        kw["language"] = cfg["language"]
    if cfg.get("configured") == "assignment" and (cfg["close"] or cfg["version"] < 200):
        cl = OFXClient("http://other.example/ofx", userid="someone-else", clientuid="OTHER-CLIENTUID", org="OTHERORG", fid="OTHERFID", version=103 if cfg["version"] >= 200 else 203,
                       appid="OTHER", appver="0", language="SPA", prettyprint=not cfg["pretty"], close_elements=True, bankid="000000000", brokerid="other.example")
        with warnings.catch_warnings():
            warnings.simplefilter("ignore")
            cl.request_profile(dryrun=True).read()
            cl.request_statements("other-password", dryrun=True).read()
        cl.url = URL
        for attr in ("userid", "clientuid", "org", "fid", "version", "appid", "appver", "language", "prettyprint", "close_elements", "bankid", "brokerid"):
            setattr(cl, attr, kw.get(attr, getattr(OFXClient, attr)))
        return cl, user, pw
    return OFXClient(URL, **kw), user, pw


def make_request(kind, pos, variant):
    """-> (library namedtuple args dict, spec dict) ; variant picks dates/flags deterministically"""
    acctid = ACCTIDS[(pos + variant) % len(ACCTIDS)] + f"-{pos}"
    d1 = DATES[(variant + pos) % len(DATES)]
    d2 = DATES[(variant // 5 + 2 * pos + 1) % len(DATES)]
    spec = {"kind": kind, "acctid": acctid, "dtstart": d1, "dtend": d2}
    if kind in ("StmtRq", "StmtEndRq"):
        spec["accttype"] = ACCTTYPES[(pos + variant) % 4]
    if kind in ("StmtRq", "CcStmtRq"):
        spec["inctran"] = (variant // 25) % 2 == 0
    if kind == "InvStmtRq":
        f = (variant // 25) % 16
        spec["inctran"], spec["incoo"], spec["incpos"], spec["incbal"] = not (f & 1), bool(f & 2), not (f & 4), not (f & 8)
        spec["dtasof"] = DATES[(variant // 3 + pos + 2) % len(DATES)]
    return spec


def lib_request(spec):
    from ofxtools import Client as C

    k = spec["kind"]
    args = {a: v for a, v in spec.items() if a != "kind"}
    return getattr(C, k)(**args)


# ---------------------------------------------------------------------------------------------
# expected model term
# ---------------------------------------------------------------------------------------------
def expected_signon(cfg, user, pw, version, anonymous=False):
    from ofxtools.Client import AUTH_PLACEHOLDER

    kw = {"dtclient": "<DTCLIENT>", "userid": AUTH_PLACEHOLDER if anonymous else user, "userpass": AUTH_PLACEHOLDER if anonymous else pw, "language": cfg["language"] or "ENG"}
    if cfg["fi"]:
        org, fid = cfg["fi"]
        fikw = {"org": org}
        if fid:
            fikw["fid"] = fid
        kw["fi"] = ("FI", fikw, [])
    kw["appid"], kw["appver"] = cfg["app"] or ("QWIN", "2700")
    if cfg["clientuid"] and version >= 103:
        kw["clientuid"] = cfg["clientuid"]
    return ("SIGNONMSGSRQV1", {"sonrq": ("SONRQ", kw, [])}, [])


def inctran_term(spec):
    kw = {}
    if spec.get("dtstart") is not None:
        kw["dtstart"] = spec["dtstart"]
    if spec.get("dtend") is not None:
        kw["dtend"] = spec["dtend"]
    kw["include"] = bool(spec["inctran"])
    return ("INCTRAN", kw, [])


def expected_wrapper(spec, i):
    k = spec["kind"]
    uid = f"<TRNUID{i}>"
    if k == "StmtRq":
        acct = ("BANKACCTFROM", {"bankid": BANKID, "acctid": spec["acctid"], "accttype": spec["accttype"]}, [])
        return "bankmsgsrqv1", ("STMTTRNRQ", {"trnuid": uid, "stmtrq": ("STMTRQ", {"bankacctfrom": acct, "inctran": inctran_term(spec)}, [])}, [])
    if k == "CcStmtRq":
        acct = ("CCACCTFROM", {"acctid": spec["acctid"]}, [])
        return "creditcardmsgsrqv1", ("CCSTMTTRNRQ", {"trnuid": uid, "ccstmtrq": ("CCSTMTRQ", {"ccacctfrom": acct, "inctran": inctran_term(spec)}, [])}, [])
    if k == "InvStmtRq":
        acct = ("INVACCTFROM", {"brokerid": BROKERID, "acctid": spec["acctid"]}, [])
        kw = {"invacctfrom": acct}
        if spec["inctran"]:
            kw["inctran"] = inctran_term(spec)
        kw["incoo"] = bool(spec["incoo"])
        pkw = {}
        if spec.get("dtasof") is not None:
            pkw["dtasof"] = spec["dtasof"]
        pkw["include"] = bool(spec["incpos"])
        kw["incpos"] = ("INCPOS", pkw, [])
        kw["incbal"] = bool(spec["incbal"])
        return "invstmtmsgsrqv1", ("INVSTMTTRNRQ", {"trnuid": uid, "invstmtrq": ("INVSTMTRQ", kw, [])}, [])
    dates = {}
    if spec.get("dtstart") is not None:
        dates["dtstart"] = spec["dtstart"]
    if spec.get("dtend") is not None:
        dates["dtend"] = spec["dtend"]
    if k == "StmtEndRq":
        acct = ("BANKACCTFROM", {"bankid": BANKID, "acctid": spec["acctid"], "accttype": spec["accttype"]}, [])
        return "bankmsgsrqv1", ("STMTENDTRNRQ", {"trnuid": uid, "stmtendrq": ("STMTENDRQ", dict({"bankacctfrom": acct}, **dates), [])}, [])
    acct = ("CCACCTFROM", {"acctid": spec["acctid"]}, [])
    return "creditcardmsgsrqv1", ("CCSTMTENDTRNRQ", {"trnuid": uid, "ccstmtendrq": ("CCSTMTENDRQ", dict({"ccacctfrom": acct}, **dates), [])}, [])


def expected_ofx(signon, wrappers):
    kw = {"signonmsgsrqv1": signon}
    for mset, w in wrappers:
        kw.setdefault(mset, (mset.upper(), {}, []))[2].append(w)
    return ("OFX", kw, [])


# ---------------------------------------------------------------------------------------------
# flattening with per-kind member indices (order across kinds inside one message set is not pinned down)
# ---------------------------------------------------------------------------------------------
def flat_term(term, path=()):
    name, kw, members = term
    cls = U.cls_by_name(name)
    cm = S.child_map(cls)
    out = {path + ("<class>",): name}
    for k, v in kw.items():
        c = cm[k]
        if S._isterm(v):
            out.update(flat_term(v, path + (k,)))
        elif isinstance(v, str) and v.startswith("<") and v.endswith(">") and (v.startswith("<TRNUID") or v == "<DTCLIENT>"):
            out[path + (k,)] = v
        else:
            out[path + (k,)] = R.read_value(c.typ, c.params, R.write_value(c.typ, v))
    counts = {}
    le = next((c for c in S.children(cls) if c.kind == "lelem"), None)
    for m in members:
        if S._isterm(m):
            kname = m[0].lower()
            i = counts.get(kname, 0)
            counts[kname] = i + 1
            out.update(flat_term(m, path + ((kname, i),)))
        else:
            i = counts.get(le.name, 0)
            counts[le.name] = i + 1
            out[path + ((le.name, i),)] = R.read_value(le.typ, le.params, R.write_value(le.typ, m))
    return out


def flat_doc(cls, sdoc, path=()):
    out = {path + ("<class>",): sdoc[0]}
    bytag = {}
    for c in S.children(cls):
        if c.kind == "elem":
            bytag[S.tag_of(c.name)] = c
        elif c.kind == "lelem":
            bytag[c.name.upper()] = c
        elif c.kind in ("sub", "lagg"):
            bytag[c.target.__name__] = c
    counts = {}
    for tag, body in sdoc[1]:
        c = bytag.get(tag)
        if c is None:
            out[path + ("?" + tag,)] = "undeclared"
            continue
        if c.kind == "elem":
            if c.name in [p[-1] for p in out if p[:-1] == path]:
                out[path + (c.name + "#dup",)] = "duplicate"
            out[path + (c.name,)] = R.read_value(c.typ, c.params, body) if isinstance(body, str) else "aggregate-where-element-expected"
        elif c.kind == "sub":
            out.update(flat_doc(c.target, (tag, body if not isinstance(body, str) else []), path + (c.name,)))
        else:
            kname = c.name
            i = counts.get(kname, 0)
            counts[kname] = i + 1
            if c.kind == "lagg":
                out.update(flat_doc(c.target, (tag, body if not isinstance(body, str) else []), path + ((kname, i),)))
            else:
                out[path + ((kname, i),)] = R.read_value(c.typ, c.params, body)
    return out


def fmtp(p):
    return "/".join(f"{x[0]}[{x[1]}]" if isinstance(x, tuple) else str(x) for x in p)


def compare(exp, got, t0, t1):
    """exp may hold '<TRNUIDn>' / '<DTCLIENT>' placeholders.  -> None or text"""
    uids = []
    for p, v in exp.items():
        if p not in got:
            return f"missing: {fmtp(p)} (expected {v!r})"
        g = got[p]
        if isinstance(v, str) and v.startswith("<TRNUID"):
            if not (isinstance(g, tuple) and g[0] == "str" and 0 < len(g[1]) <= 36):
                return f"{fmtp(p)}: bad TRNUID {g!r}"
            uids.append(g[1])
        elif v == "<DTCLIENT>":
            if not (isinstance(g, tuple) and g[0] == "dt" and t0 - 1000 <= g[1] <= t1 + 1000):
                return f"{fmtp(p)}: DTCLIENT {g!r} is not the time of the call ({t0}..{t1})"
        elif g != v:
            return f"{fmtp(p)}: request says {g!r}, caller asked {v!r}"
    for p in got:
        if p not in exp:
            return f"request holds {fmtp(p)} = {got[p]!r} which the caller did not ask for"
    if len(set(uids)) != len(uids):
        return f"TRNUIDs not distinct: {uids}"
    return None


def split_file(data):
    text = data.decode("utf_8")
    if text.startswith("<?xml"):
        i = text.index("?>", text.index("<?OFX")) + 2
        hdr = H.parse_written_v2(text[:i] + "\r\n")
        return 2, hdr, text[i:]
    i = text.index("<", text.index("NEWFILEUID:"))
    hdr = H.parse_written_v1(text[:i])
    return 1, hdr, text[i:]


def check_bytes(t, sigbase, case, cfg, version, data, exp_term, t0, t1, newfileuid=True):
    t.count("evaluations")
    form = ("v2" if version >= 200 else "v1-closed" if cfg["close"] else "v1-unclosed") + ("-pretty" if cfg["pretty"] else "")
    sig = f"{sigbase}|{form}"
    if not isinstance(data, (bytes, bytearray)):
        t.fail(f"{sig}|not-bytes", case, repr(type(data)))
        return
    try:
        major, hdr, body = split_file(data)
    except Exception as e:
        t.fail(f"{sig}|header-malformed", case, f"{e}: {data[:200]!r}")
        return
    if major != version // 100 or hdr["VERSION"] != str(version):
        t.fail(f"{sig}|header-wrong-version", case, f"{hdr} for version {version}")
        return
    if newfileuid and (hdr["NEWFILEUID"] in ("", "NONE") or len(hdr["NEWFILEUID"]) > 36):
        t.fail(f"{sig}|header-newfileuid", case, hdr["NEWFILEUID"])
        return
    try:
        sdoc = ref_sgml.build(body)
    except ref_sgml.RefSyntaxError as e:
        t.fail(f"{sig}|not-well-formed", case, f"{e}: {body[:300]!r}")
        return
    exp = flat_term(exp_term)
    try:
        got = flat_doc(U.cls_by_name("OFX"), sdoc)
    except R.RefValueError as e:
        t.fail(f"{sig}|lexically-invalid-value", case, f"{e}: {body[:300]!r}")
        return
    d = compare(exp, got, t0, t1)
    if d:
        t.fail(f"{sig}|reference-reading-differs", case, d)
        return
    # (b) the library's own reading
    try:
        from ofxtools.Parser import OFXTree

        with warnings.catch_warnings(record=True) as w:
            warnings.simplefilter("always")
            tree = OFXTree()
            tree.parse(io.BytesIO(bytes(data)))
            back = tree.convert()
    except Exception as e:
        t.fail(f"{sig}|library-cannot-read-it", case, f"{type(e).__name__}: {str(e)[:200]}")
        return
    got2 = flat_term(S.inst_to_term(back))
    d = compare(exp, got2, t0, t1)
    if d:
        t.fail(f"{sig}|library-reading-differs", case, d)
        return
    if tree.header.version != version:
        t.fail(f"{sig}|header-wrong-version", case, str(tree.header.version))
        return
    t.outcome("ok-" + form)


def now_ms():
    return int(time.time() * 1000)


def run_config(t, cfg, seed, seqs, extras):
    with verbose_logging(cfg):
        return _run_config(t, cfg, seed, seqs, extras)


def _run_config(t, cfg, seed, seqs, extras):
    version = cfg["version"]
    case0 = {"cfg": cfg}
    if version >= 200 and not cfg["close"]:
        # versions 2xx refuse to omit end tags: at construction ...
        t.count("evaluations")
        try:
            make_client(cfg, seed)
            t.fail("C06|v2-unclosed|constructor|accepted", case0, f"OFXClient(version={version}, close_elements=False) was built")
        except ValueError:
            t.outcome("v2-unclosed-refused-ctor")
        except Exception as e:
            t.fail(f"C06|v2-unclosed|constructor|raises-{type(e).__name__}", case0, str(e))
        # ... and at serialize / per-call override
        t.count("evaluations")
        cl, user, pw = make_client(dict(cfg, close=True), seed)
        from ofxtools.models.ofx import OFX

        try:
            cl.serialize(OFX(signonmsgsrqv1=cl.signon(pw)), close_elements=False)
            t.fail("C06|v2-unclosed|serialize|accepted", case0, f"serialize(version={version}, close_elements=False) returned bytes")
        except ValueError:
            t.outcome("v2-unclosed-refused-serialize")
        except Exception as e:
            t.fail(f"C06|v2-unclosed|serialize|raises-{type(e).__name__}", case0, str(e))
        return
    cl, user, pw = make_client(cfg, seed)
    for seqno, (seq, variant) in enumerate(seqs):
        specs = []
        for i, k in enumerate(seq):
            specs.append(dict(specs[0]) if k == "DUP" else make_request(k, i, variant))  # DUP: a request equal to the first one
        case = {"cfg": cfg, "call": "statements", "seq": list(seq), "variant": variant}
        kinds = "+".join(sorted(set(k for k in seq if k != "DUP"))) + ("+repeated" if "DUP" in seq else "") or "empty"
        t0 = now_ms()
        try:
            with warnings.catch_warnings():
                warnings.simplefilter("ignore")
                out = cl.request_statements(pw, *[lib_request(s) for s in specs], dryrun=True)
            data = out.read()
        except Exception as e:
            t.count("evaluations")
            t.fail(f"C06|statements|{kinds}|compose-raises-{type(e).__name__}", case, f"{type(e).__name__}: {str(e)[:200]}")
            continue
        t1 = now_ms()
        wrappers = [expected_wrapper(s, i) for i, s in enumerate(specs)]
        exp = expected_ofx(expected_signon(cfg, user, pw, version), wrappers)
        check_bytes(t, f"C06|statements|{kinds}", case, cfg, version, data, exp, t0, t1)
        t.count("compositions")
    for ex in extras:
        case = {"cfg": cfg, "call": ex[0], "args": list(ex[1:])}
        t0 = now_ms()
        try:
            with warnings.catch_warnings():
                warnings.simplefilter("ignore")
                if ex[0] == "accounts":
                    out = cl.request_accounts(pw, ex[1], dryrun=True)
                    exp = ("OFX", {"signonmsgsrqv1": expected_signon(cfg, user, pw, version),
                                   "signupmsgsrqv1": ("SIGNUPMSGSRQV1", {}, [("ACCTINFOTRNRQ", {"trnuid": "<TRNUID0>", "acctinforq": ("ACCTINFORQ", {"dtacctup": ex[1]}, [])}, [])])}, [])
                elif ex[0] == "profile":
                    out = cl.request_profile(dryrun=True)
                    exp = ("OFX", {"signonmsgsrqv1": expected_signon(cfg, user, pw, version, anonymous=True),
                                   "profmsgsrqv1": ("PROFMSGSRQV1", {}, [("PROFTRNRQ", {"trnuid": "<TRNUID0>", "profrq": ("PROFRQ", {"clientrouting": "NONE", "dtprofup": datetime.datetime(1990, 1, 1, tzinfo=UTC)}, [])}, [])])}, [])
                else:
                    years, acctnum, recid = ex[1], ex[2], ex[3]
                    out = cl.request_tax1099(pw, *years, acctnum=acctnum, recid=recid, dryrun=True)
                    rqkw = {}
                    if acctnum:
                        rqkw["acctnum"] = acctnum
                    if recid:
                        rqkw["recid"] = recid
                    exp = ("OFX", {"signonmsgsrqv1": expected_signon(cfg, user, pw, version),
                                   "tax1099msgsrqv1": ("TAX1099MSGSRQV1", {}, [("TAX1099TRNRQ", {"trnuid": "<TRNUID0>", "tax1099rq": ("TAX1099RQ", rqkw, [int(y) for y in years])}, [])])}, [])
            data = out.read()
        except Exception as e:
            t.count("evaluations")
            t.fail(f"C06|{ex[0]}|compose-raises-{type(e).__name__}", case, f"{type(e).__name__}: {str(e)[:200]}")
            continue
        t1 = now_ms()
        extra_sig = ex[0]
        if ex[0] == "tax1099":
            extra_sig += "|" + ("acctnum" if ex[2] else "no-acctnum") + ("+recid" if ex[3] else "")
        check_bytes(t, f"C06|{extra_sig}", case, cfg, version, data, exp, t0, t1)
        t.count("compositions")


# ---------------------------------------------------------------------------------------------
# histories on one client: earlier calls (succeeding, failing, with per-call overrides) must not change what a later
# call composes
# ---------------------------------------------------------------------------------------------
DISTURB = ["profile-override-dry", "profile-override-refused", "profile-override-neterror", "statements-bad-request", "accounts-dry", "serialize-override", "statements-neterror"]


def disturb(cl, pw, cfg, which, net):
    import urllib.error

    from ofxtools.Client import StmtRq
    from ofxtools.models.ofx import OFX

    v1 = cfg["version"] < 200
    other = 203 if v1 else 102
    try:
        if which == "profile-override-dry":
            cl.request_profile(version=other, prettyprint=not cfg["pretty"], close_elements=True, dryrun=True)
        elif which == "profile-override-refused":
            # a 2xx version with end tags off is refused locally
            cl.request_profile(version=220, close_elements=False, dryrun=True)
        elif which == "profile-override-neterror":
            def boom(ex):
                raise urllib.error.URLError("scripted failure")
            net.handler = boom
            cl.request_profile(version=other if cfg["close"] else (160 if cfg["version"] != 160 else 103), prettyprint=True)
        elif which == "statements-bad-request":
            cl.request_statements(pw, StmtRq(acctid="1", accttype="NOT-A-TYPE"), dryrun=True)
        elif which == "accounts-dry":
            cl.request_accounts(pw, DATES[1], dryrun=True)
        elif which == "serialize-override":
            cl.serialize(OFX(signonmsgsrqv1=cl.signon(pw)), version=other, prettyprint=not cfg["pretty"], close_elements=True)
        else:
            def boom(ex):
                raise urllib.error.URLError("scripted failure")
            net.handler = boom
            cl.request_statements(pw, StmtRq(acctid="1", accttype="CHECKING"), skip_profile=True)
    except Exception:
        return "raised"
    return "ok"


def history_work(chunk):
    from vf import fakehttp as F
    from vf.core import private_xdg

    private_xdg()
    net = F.Net()
    net.install()
    t = Tally()
    try:
        for cfg, seed, hist in chunk:
            cl, user, pw = make_client(cfg, seed)
            outcomes = [disturb(cl, pw, cfg, d, net) for d in hist]
            t.outcome("disturb-" + "+".join(sorted(set(outcomes))))
            specs = [make_request(k, i, 3) for i, k in enumerate(("StmtRq", "InvStmtRq"))]
            case = {"cfg": cfg, "call": "history", "history": list(hist)}
            t0 = now_ms()
            try:
                data = cl.request_statements(pw, *[lib_request(s_) for s_ in specs], dryrun=True).read()
            except Exception as e:
                t.count("evaluations")
                t.fail(f"C06|after-{'+'.join(hist)}|compose-raises-{type(e).__name__}", case, f"{type(e).__name__}: {str(e)[:200]}")
                continue
            t1 = now_ms()
            exp = expected_ofx(expected_signon(cfg, user, pw, cfg["version"]), [expected_wrapper(s_, i) for i, s_ in enumerate(specs)])
            check_bytes(t, f"C06|after-{'+'.join(hist)}", case, cfg, cfg["version"], data, exp, t0, t1)
            t.count("compositions")
            t.count("histories")
    finally:
        net.uninstall()
    return t


def dup_seqs():
    """request lists holding two equal requests (same account, dates and flags), adjacent and around another kind"""
    out = []
    for i, k in enumerate(KINDS):
        out += [(k, "DUP"), (k, KINDS[(i + 1) % len(KINDS)], "DUP"), (k, "DUP", "DUP")]
    return out


def all_seqs(nmax):
    out = []
    for n in range(0, nmax + 1):
        for seq in itertools.product(KINDS, repeat=n):
            out.append(seq)
    return out


def work(chunk):
    t = Tally()
    hist = [j[1:] for j in chunk if j[0] == "history"]
    if hist:
        t.merge(history_work(hist))
    for job in chunk:
        if job[0] == "history":
            continue
        cfg, seed, seqs, extras = job
        run_config(t, cfg, seed, seqs, extras)
        t.count("configs")
    return t


EXTRAS = [("accounts", DATES[1]), ("accounts", DATES[2]), ("profile",), ("tax1099", (), None, None), ("tax1099", ("2023",), "ACCT&<1>", None), ("tax1099", ("2022", "2023"), None, "REC-1"),
          ("tax1099", ("2023",), "12345", "REC>2")]


def run(ctx):
    seqs = all_seqs(3) + dup_seqs()
    base_seqs = [(s, (i + ctx.seed) % 400) for i, s in enumerate(seqs)]
    # single-request lists: every flag/date variant
    single = []
    for k in KINDS:
        for v in range(400):
            single.append(((k,), v))
    jobs = []
    cfgs = list(configs(2 if ctx.quick else None))
    if ctx.thorough:
        # full product of the request-shaping dimensions; the logging and configured-by-assignment dimensions stay within 3 deviations of the default
        near = {repr(sorted(c.items(), key=lambda kv: kv[0])) for c in configs(3)}
        cfgs = [c for c in cfgs if (not c.get("loglevel") and c.get("configured") == "constructor") or repr(sorted(c.items(), key=lambda kv: kv[0])) in near]
    for i, cfg in enumerate(cfgs):
        if ctx.quick:
            sq = base_seqs if i < 40 else base_seqs[(i % 4)::4]
        else:
            sq = base_seqs
        sg = single if i == 0 else single[(i % 40)::40]
        jobs.append((cfg, ctx.seed, sq + sg, EXTRAS))
    # call histories on one client: every sequence of <= 2 disturbing calls, on one configuration per wire form
    hcfgs = [c for c in configs(1) if c["clientuid"] and not c["fi"] and not c["app"] and not c["language"] and c["creds"] == "plain" and not (c["version"] >= 200 and not c["close"])]
    hseqs = [()] + [(d,) for d in DISTURB] + list(itertools.product(DISTURB, repeat=2))
    if ctx.thorough:
        hseqs += list(itertools.product(DISTURB, repeat=3))
    hjobs = [("history", c, ctx.seed, h) for c in hcfgs for h in hseqs]
    jobs += [tuple(j) for j in hjobs]
    tally = ctx.pmap(work, jobs, chunk=1 if len(jobs) < 4000 else 8)
    if tally.counts.get("histories", 0) < 200:
        vacuous(tally, f"vacuous: {tally.counts}")
    if not tally.fails and not any(o.startswith("disturb-") and "raised" in o for o in tally.outcomes):
        vacuous(tally, "vacuous: no disturbing call ever failed")
    if tally.counts.get("compositions", 0) < 5000:
        vacuous(tally, f"vacuous: {tally.counts}")
    if not tally.fails:
        for o in ("ok-v2", "ok-v2-pretty", "ok-v1-closed", "ok-v1-closed-pretty", "ok-v1-unclosed", "ok-v1-unclosed-pretty", "v2-unclosed-refused-ctor", "v2-unclosed-refused-serialize"):
            if o not in tally.outcomes:
                vacuous(tally, f"vacuous: {o} never observed")
    tally.sample({"cfg": cfgs[1], "seq": ["StmtRq", "StmtEndRq", "InvStmtRq"], "spec0": {k: str(v) for k, v in make_request("StmtRq", 0, 7).items()}})
    cov = {
        "evaluations": tally.counts.get("evaluations", 0),
        "distinct_nontrivial": tally.counts.get("compositions", 0),
        "rule": ("client configurations within <=2 deviations of the default" if ctx.quick else "full product of client configurations (logging at DEBUG and configuration by assignment within 3 deviations of the default)") +
        " over wire form (v2/v1 x pretty x end tags, one dimension) x version within the major version x FI {none, ORG, ORG+FID with markup chars} x CLIENTUID x app id/version x language x logging at DEBUG x credentials {plain, all 95 printable "
        "ASCII characters} x configured through the constructor or by assignment on a used client x request lists: all 156 sequences of length 0..3 over the five statement request kinds + 15 lists holding equal requests (account ids with & < > quotes, 5 date options incl. -5:30, +14:00, "
        "-0:30 and sub-ms, flags) + every single-request flag/date variant (400 per kind, spread over configurations) + account-info, profile and 4 tax requests; all dryrun; "
        "each composition read by the strict reference reader and by the library, both compared with the expected request; + call histories: on one client per wire form every sequence of <= "
        + ("3" if ctx.thorough else "2") + " earlier calls out of 7 (per-call version/format overrides that succeed, are refused locally or fail on the network; a request that cannot be composed; "
        "plain dry runs) followed by a composition that must still obey the client's configuration; distinct_nontrivial = compositions",
        "configs": tally.counts.get("configs", 0),
        "exhaustive": True,
    }
    return {"tally": tally, "coverage": cov, "assumptions": ["TRNUID / NEWFILEUID are checked for shape and distinctness, DTCLIENT for lying within the call's duration", "order of wrappers of different kinds inside one message set is not pinned down; order within a kind is"]}


def replay(ctx, case):
    t = Tally()
    cfg = case["cfg"]
    if cfg.get("fi"):
        cfg["fi"] = tuple(cfg["fi"])
    if cfg.get("app"):
        cfg["app"] = tuple(cfg["app"])
    if case.get("call") == "statements":
        run_config(t, cfg, ctx.seed, [(tuple(case["seq"]), case["variant"])], [])
    else:
        run_config(t, cfg, ctx.seed, [], EXTRAS)
    for sig, (n, c, d) in sorted(t.fails.items()):
        print(" ", sig, "|", d)
    return bool(t.fails)
