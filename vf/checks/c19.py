"""C19  ofxget requests exactly the configured or discovered accounts and given dates.

A. `ofxget stmt|stmtend --dryrun`: every assignment of {0,1,2} account ids to the six (five) account types x date options
   and flags; the printed request is read back by the reference reader and compared with the expected request.
B. `ofxget stmt|stmtend --all` against the scripted server: ACCTINFORS listing every sequence of <= 3 accounts over
   6 types x 3 service statuses; the statement request the server receives must ask for exactly the ACTIVE accounts.
"""
import contextlib
import datetime
import io
import itertools
import warnings

from vf import fakehttp as F
from vf import ref_sgml
from vf import ref_types as R
from vf import universe as U
from vf.checks import c06
from vf.core import vacuous, HarnessError, Tally, private_xdg

LEVEL = "exploration"
UTC = datetime.timezone.utc
URL = "http://ofx.example.com/ofx"
TYPES = ["checking", "savings", "moneymrkt", "creditline", "creditcard", "investment"]
OPT = {"checking": "-C", "savings": "-S", "moneymrkt": "-M", "creditline": "-L", "creditcard": "-c", "investment": "-i"}
BANKID, BROKERID = "011000015", "brk.example.com"
DATE_TEXTS = [None, "20240131", "20231231233000.005[-5.30:IST]", "20240301000001[+14]", "20240229234500.000[-0.30]"]


def ofxget():
    from ofxtools.scripts import ofxget as og

    return og


def run_cli(argv):
    og = ofxget()
    ns = og.make_argparser().parse_args(argv)
    buf = io.StringIO()
    # -v -v: what main() does with it is to configure logging at DEBUG; the request must not depend on that
    with c06.verbose_logging({"loglevel": "DEBUG" if getattr(ns, "verbose", 0) >= 2 else None}), contextlib.redirect_stdout(buf), warnings.catch_warnings():
        warnings.simplefilter("ignore")
        args = og.merge_config(ns, og.USERCFG)
        og.REQUEST_HANDLERS[args["request"]](args)
    return buf.getvalue()


def dt_of(text):
    if text is None:
        return None
    ms = R.read_datetime(text)
    return datetime.datetime(1970, 1, 1, tzinfo=UTC) + datetime.timedelta(milliseconds=ms)


def expected_request(cmd, accounts, dates, flags, user, password, bankid=BANKID, brokerid=BROKERID):
    """accounts: list of (type, id) in CLI/discovery order per type"""
    specs = []
    d1, d2, d3 = (dt_of(x) for x in dates)
    order = TYPES if cmd == "stmt" else TYPES[:5]
    for ty in order:
        for (t2, acctid) in accounts:
            if t2 != ty:
                continue
            if ty == "creditcard":
                if cmd == "stmt":
                    specs.append({"kind": "CcStmtRq", "acctid": acctid, "dtstart": d1, "dtend": d2, "inctran": flags.get("inctran", True)})
                else:
                    specs.append({"kind": "CcStmtEndRq", "acctid": acctid, "dtstart": d1, "dtend": d2})
            elif ty == "investment":
                specs.append({"kind": "InvStmtRq", "acctid": acctid, "dtstart": d1, "dtend": d2, "dtasof": d3, "inctran": flags.get("inctran", True), "incoo": flags.get("incoo", False),
                              "incpos": flags.get("incpos", True), "incbal": flags.get("incbal", True)})
            else:
                if cmd == "stmt":
                    specs.append({"kind": "StmtRq", "acctid": acctid, "accttype": ty.upper(), "dtstart": d1, "dtend": d2, "inctran": flags.get("inctran", True)})
                else:
                    specs.append({"kind": "StmtEndRq", "acctid": acctid, "accttype": ty.upper(), "dtstart": d1, "dtend": d2})
    wrappers = []
    for i, s in enumerate(specs):
        mset, w = c06.expected_wrapper(s, i)
        wrappers.append((mset, w))
    # bank/broker ids come from the CLI here, not from c06's constants
    wrappers = [(m, _subst(w, bankid, brokerid)) for m, w in wrappers]
    cfg = {"language": None, "fi": None, "app": None, "clientuid": None}
    son = c06.expected_signon(cfg, user, password, 203)
    return c06.expected_ofx(son, wrappers)


def _subst(term, bankid, brokerid):
    name, kw, mem = term
    kw2 = {}
    for k, v in kw.items():
        if isinstance(v, tuple) and len(v) == 3 and isinstance(v[1], dict):
            kw2[k] = _subst(v, bankid, brokerid)
        elif k == "bankid":
            kw2[k] = bankid
        elif k == "brokerid":
            kw2[k] = brokerid
        else:
            kw2[k] = v
    return (name, kw2, mem)


def compare_request(t, sig, case, data, exp_term, t0, t1):
    try:
        major, hdr, body = c06.split_file(data)
        sdoc = ref_sgml.build(body)
        got = c06.flat_doc(U.cls_by_name("OFX"), sdoc)
    except Exception as e:
        t.fail(f"{sig}|request-unreadable", case, f"{type(e).__name__}: {e}: {data[:200]!r}")
        return False
    d = c06.compare(c06.flat_term(exp_term), got, t0, t1)
    if d:
        kind = "missing-or-wrong" if d.startswith("missing") or "caller asked" in d else "extra"
        t.fail(f"{sig}|{kind}", case, d)
        return False
    return True


# ---------------------------------------------------------------------------------------------
# A. dry run
# ---------------------------------------------------------------------------------------------
def dry_work(chunk):
    private_xdg()
    t = Tally()
    for cmd, counts, dates, flags in chunk:
        accounts = []
        argv = [cmd, "--url", URL, "-u", "jdoe", "--dryrun", "--bankid", BANKID]
        if cmd == "stmt":
            argv += ["--brokerid", BROKERID]
        # interleave options of different types on the command line: order within a type must be kept
        per = {ty: [f"{ty[:2]}{k}-{n}" for k in range(n)] for ty, n in zip(TYPES, counts)}
        if "sameids" in flags:
            # one number under several account types (credit-union member numbers): an account is its type AND its number
            per = {ty: [f"100{k + 1}" for k in range(n)] for ty, n in zip(TYPES, counts)}
        for k in range(2):
            for ty in (TYPES if cmd == "stmt" else TYPES[:5]):
                if k < len(per[ty]):
                    argv += [OPT[ty], per[ty][k]]
        for ty in TYPES:
            accounts += [(ty, a) for a in per[ty]]
        for opt, val in zip(("-s", "-e", "-a"), dates):
            if val is not None and not (opt == "-a" and cmd != "stmt"):
                argv += [opt, val]
        for f in flags:
            if f == "verbose":
                argv += ["-v", "-v"]
                continue
            if f == "sameids":
                continue
            argv.append({"inctran": "--no-transactions", "incbal": "--no-balances", "incpos": "--no-positions", "incoo": "--open-orders"}[f])
        fl = {"inctran": "inctran" not in flags, "incbal": "incbal" not in flags, "incpos": "incpos" not in flags, "incoo": "incoo" in flags}
        case = {"part": "dryrun", "argv": argv}
        sig = f"C19|{cmd}|dryrun|{'dates' if any(dates) else 'no-dates'}{'+flags' if flags else ''}"
        t.count("evaluations")
        t.count("dry-runs")
        t0 = c06.now_ms()
        try:
            out = run_cli(argv)
        except Exception as e:
            t.fail(f"{sig}|raises-{type(e).__name__}", case, f"{type(e).__name__}: {str(e)[:200]}")
            continue
        t1 = c06.now_ms()
        exp = expected_request(cmd, accounts, dates if cmd == "stmt" else (dates[0], dates[1], None), fl, "jdoe", "{:0<32}".format("anonymous"))
        if compare_request(t, sig, case, out.strip().encode("utf_8") if not out.startswith("OFXHEADER") else out.encode("utf_8").rstrip(b"\n"), exp, t0, t1):
            t.outcome("dry-ok-" + cmd)
    return t


# ---------------------------------------------------------------------------------------------
# B. --all
# ---------------------------------------------------------------------------------------------
STATUSES = ["AVAIL", "PEND", "ACTIVE"]


def acctinfo_term(i, ty, status, acctid=None):
    acctid = acctid or f"{ty[:2]}{i}"
    if ty == "creditcard":
        inner = ("CCACCTINFO", {"ccacctfrom": ("CCACCTFROM", {"acctid": acctid}, []), "suptxdl": True, "xfersrc": False, "xferdest": False, "svcstatus": status}, [])
    elif ty == "investment":
        inner = ("INVACCTINFO", {"invacctfrom": ("INVACCTFROM", {"brokerid": BROKERID, "acctid": acctid}, []), "usproducttype": "OTHER", "checking": False, "svcstatus": status}, [])
    else:
        inner = ("BANKACCTINFO", {"bankacctfrom": ("BANKACCTFROM", {"bankid": BANKID, "acctid": acctid, "accttype": ty.upper()}, []), "suptxdl": True, "xfersrc": False, "xferdest": False, "svcstatus": status}, [])
    return ("ACCTINFO", {"desc": f"account {i}"}, [inner])


def all_work(chunk):
    private_xdg()
    t = Tally()
    net = F.Net()
    net.install()
    try:
        for cmd, seq in chunk:
            infos = [acctinfo_term(i, ty, st) for i, (ty, st) in enumerate(seq)]
            got = []

            def handler(ex):
                rq = F.read_request(ex.body)
                got.append((rq, ex))
                if rq["kind"] == "accounts":
                    return F.ok(F.generic_response("accounts", rq["trnuids"], acctinfos=infos))
                return F.ok(F.generic_response("statements", rq["trnuids"]))

            net.handler = handler
            net.log = []
            argv = [cmd, "--url", URL, "-u", "jdoe", "--password", "s3cr3t&<pw>", "--all", "--skipprofile"]
            active = [(ty, f"{ty[:2]}{i}") for i, (ty, st) in enumerate(seq) if st == "ACTIVE" and (cmd == "stmt" or ty != "investment")]
            kinds = sorted({("bank" if ty in TYPES[:4] else ty) + ":" + ("active" if st == "ACTIVE" else "inactive") for ty, st in seq})
            shape = "only-inactive:" + "+".join(sorted({k.split(":")[0] for k in kinds if k.endswith("inactive")} - {k.split(":")[0] for k in kinds if k.endswith(":active")})) if any(
                (k.split(":")[0] + ":active") not in kinds for k in kinds if k.endswith("inactive")) else "each-kind-has-active"
            case = {"part": "all", "cmd": cmd, "seq": [list(x) for x in seq]}
            sig = f"C19|{cmd}|all|{shape}"
            t.count("evaluations")
            t.count("all-runs")
            t0 = c06.now_ms()
            try:
                run_cli(argv)
            except Exception as e:
                t.fail(f"{sig}|raises-{type(e).__name__}", case, f"accounts {seq}: {type(e).__name__}: {str(e)[:150]}")
                continue
            t1 = c06.now_ms()
            stm = [g for g in got if g[0]["kind"] == "statements"]
            if len([g for g in got if g[0]["kind"] == "accounts"]) != 1 or len(stm) > 1:
                t.fail(f"{sig}|wrong-number-of-requests", case, str([g[0]["kind"] for g in got]))
                continue
            if not stm:
                if active:
                    t.fail(f"{sig}|no-statement-request", case, f"active accounts {active}")
                else:
                    t.outcome("all-nothing-to-ask")
                continue
            exp = expected_request(cmd, active, (None, None, None), {}, "jdoe", "s3cr3t&<pw>")
            if compare_request(t, sig, case, stm[0][1].body, exp, t0, t1):
                t.outcome("all-ok-" + cmd)
    finally:
        net.uninstall()
    return t


CONFIGURED = {"checking": ["9001", "90 02"], "savings": ["9101"], "creditcard": ["94 01 X"], "investment": ["9501"]}  # ids may hold blanks


def cfg_all_work(chunk):
    """--all for a nickname whose configuration section already lists accounts: for every account type the server lists
    as ACTIVE the request must ask the server's accounts, not the configured ones; a configured account the server lists
    as not active (or does not list) is not requested."""
    import importlib

    from ofxtools import config

    private_xdg()
    t = Tally()
    net = F.Net()
    net.install()
    try:
        for cmd, seq in chunk:
            userfile = config.USERCONFIGDIR / "ofxget.cfg"
            userfile.parent.mkdir(parents=True, exist_ok=True)
            home = len(seq) % 3 == 1  # every third run: the nickname is configured through an OFX Home id instead of a URL
            userfile.write_text("[mybank]\n" + ("ofxhome = 1003" if home else "url = " + URL) + "\nuser = jdoe\nbankid = 999999999\nbrokerid = old.broker\n"
                                + "".join(f"{ty} = {', '.join(ids)}\n" for ty, ids in CONFIGURED.items()))
            og = importlib.reload(ofxget())
            infos = [acctinfo_term(i, *e) for i, e in enumerate(seq)]
            got = []

            def handler(ex):
                if ex.url.startswith("http://www.ofxhome.com/"):
                    xml = f'<institution id="1003"><name>N</name><fid></fid><org></org><url>{URL}</url><brokerid>home.broker</brokerid><ofxfail>0</ofxfail><sslfail>0</sslfail>' \
                          "<lastofxvalidation>2019-04-29 22:01:02</lastofxvalidation><lastsslvalidation>2019-04-29 22:01:02</lastsslvalidation></institution>"
                    return 200, [("Content-Type", "text/xml")], xml.encode()
                rq = F.read_request(ex.body)
                got.append((rq, ex))
                if rq["kind"] == "accounts":
                    return F.ok(F.generic_response("accounts", rq["trnuids"], acctinfos=infos))
                return F.ok(F.generic_response("statements", rq["trnuids"]))

            net.handler = handler
            # first, without --all: the configured accounts exactly as the file lists them
            t.count("evaluations")
            try:
                out = run_cli([cmd, "mybank", "--dryrun"])
                cfg_accounts = [(ty, a) for ty in TYPES for a in CONFIGURED.get(ty, []) if cmd == "stmt" or ty != "investment"]
                exp0 = expected_request(cmd, cfg_accounts, (None, None, None), {}, "jdoe", "{:0<32}".format("anonymous"), bankid="999999999", brokerid="old.broker")
                t0 = c06.now_ms()
                if compare_request(t, f"C19|{cmd}|configured-accounts|dryrun", {"part": "cfg-all", "cmd": cmd, "seq": [list(x) for x in seq], "step": "dryrun"},
                                   out.strip().encode("utf_8") if not out.startswith("OFXHEADER") else out.encode("utf_8").rstrip(b"\n"), exp0, t0 - 60000, t0 + 1000):
                    t.outcome("cfg-dry-ok")
            except Exception as e:
                t.fail(f"C19|{cmd}|configured-accounts|dryrun|raises-{type(e).__name__}", {"part": "cfg-all", "cmd": cmd, "seq": [list(x) for x in seq], "step": "dryrun"}, f"{type(e).__name__}: {str(e)[:150]}")
            got.clear()
            argv = [cmd, "mybank", "--password", "pw", "--all", "--skipprofile"] + (["-v", "-v"] if len(seq) % 2 == 0 else [])
            active = [(e[0], e[2] if len(e) > 2 else f"{e[0][:2]}{i}") for i, e in enumerate(seq) if e[1] == "ACTIVE" and (cmd == "stmt" or e[0] != "investment")]
            case = {"part": "cfg-all", "cmd": cmd, "seq": [list(x) for x in seq]}
            sig = f"C19|{cmd}|all-with-configured-accounts"
            have = {e[0] for e in seq if e[1] == "ACTIVE"}
            if not have >= set(CONFIGURED):
                # a configured type without an ACTIVE account in the response: its configured accounts are either listed
                # as not active, or not listed - in both cases they are not among "the accounts the server lists as ACTIVE"
                listed = {e[0] for e in seq}
                sig += "|configured-type-" + ("listed-inactive" if set(CONFIGURED) - have <= listed else "not-listed")
            t.count("evaluations")
            t.count("all-runs")
            t0 = c06.now_ms()
            try:
                run_cli(argv)
            except Exception as e:
                t.fail(f"{sig}|raises-{type(e).__name__}", case, f"{type(e).__name__}: {str(e)[:150]}")
                continue
            finally:
                userfile.unlink()
            t1 = c06.now_ms()
            stm = [g for g in got if g[0]["kind"] == "statements"]
            if len(stm) != 1:
                t.fail(f"{sig}|wrong-number-of-requests", case, str([g[0]["kind"] for g in got]))
                continue
            exp = expected_request(cmd, active, (None, None, None), {}, "jdoe", "pw")
            if compare_request(t, sig, case, stm[0][1].body, exp, t0, t1):
                t.outcome("cfg-all-ok")
        importlib.reload(ofxget())
    finally:
        net.uninstall()
    return t


def dispatch(chunk):
    t = Tally()
    for kind, job in chunk:
        t.merge(dry_work([job]) if kind == "dry" else cfg_all_work([job]) if kind == "cfgall" else all_work([job]))
    return t


def run(ctx):
    jobs = []
    nd = (None, None, None)
    for counts in itertools.product((0, 1, 2), repeat=6):
        jobs.append(("dry", ("stmt", counts, nd, ())))
    for counts in itertools.product((0, 1, 2), repeat=5):
        jobs.append(("dry", ("stmtend", counts + (0,), nd, ())))
    base = (1, 0, 1, 0, 1, 2)
    for i, d in enumerate(DATE_TEXTS[1:]):
        for which in range(3):
            dates = [None, None, None]
            dates[which] = d
            jobs.append(("dry", ("stmt", base, tuple(dates), ())))
            if which < 2:
                jobs.append(("dry", ("stmtend", (1, 1, 0, 0, 2, 0), tuple(dates), ())))
    for ds in itertools.product(DATE_TEXTS[:3], repeat=3):
        jobs.append(("dry", ("stmt", base, ds, ())))
    allflags = ["inctran", "incbal", "incpos", "incoo"]
    for r in range(1, 5):
        for fs in itertools.combinations(allflags, r):
            jobs.append(("dry", ("stmt", base, nd, fs)))
            jobs.append(("dry", ("stmt", base, (DATE_TEXTS[1], DATE_TEXTS[2], None), fs)))
            jobs.append(("dry", ("stmt", base, (DATE_TEXTS[2], DATE_TEXTS[1], DATE_TEXTS[3]), fs)))
            jobs.append(("dry", ("stmt", base, (None, None, DATE_TEXTS[4]), fs)))
            jobs.append(("dry", ("stmt", base, (DATE_TEXTS[1], DATE_TEXTS[2], DATE_TEXTS[3]), fs + ("verbose",))))
    jobs.append(("dry", ("stmt", (2, 1, 1, 1, 2, 2), nd, ("verbose",))))
    for counts in ((1, 1, 0, 0, 1, 1), (2, 2, 1, 1, 2, 2), (1, 0, 1, 0, 0, 0), (0, 1, 0, 1, 1, 0)):
        jobs.append(("dry", ("stmt", counts, nd, ("sameids",))))
        jobs.append(("dry", ("stmtend", counts[:5] + (0,), (DATE_TEXTS[1], None, None), ("sameids",))))
    jobs.append(("dry", ("stmtend", (2, 1, 1, 1, 2, 0), (DATE_TEXTS[1], DATE_TEXTS[2], None), ("verbose",))))
    kinds = [(ty, st) for ty in TYPES for st in STATUSES]
    seqs = [()] + [(k,) for k in kinds] + list(itertools.product(kinds, repeat=2))
    act = [(ty, "ACTIVE") for ty in TYPES]
    if ctx.quick:
        seqs += list(itertools.product(act, repeat=3))
        seqs += [s for s in itertools.combinations_with_replacement(kinds, 3) if (hash_stable(s) + ctx.seed) % 4 == 0]
    else:
        seqs += list(itertools.product(kinds, repeat=3))
    seqs = list(dict.fromkeys(seqs))
    for s in seqs:
        jobs.append(("all", ("stmt", s)))
    for s in seqs:
        if len(s) <= 2 or ctx.thorough:
            jobs.append(("all", ("stmtend", s)))
    # a configured nickname: every ordering of one ACTIVE account per configured type, plus inactive ones in between
    import itertools as _it

    core = [("checking", "ACTIVE"), ("savings", "ACTIVE"), ("creditcard", "ACTIVE"), ("investment", "ACTIVE")]
    for perm in _it.permutations(core):
        jobs.append(("cfgall", ("stmt", perm)))
        jobs.append(("cfgall", ("stmt", (perm[0], ("checking", "AVAIL"), perm[1], ("creditcard", "PEND"), perm[2], perm[3], ("checking", "ACTIVE")))))
    for perm in _it.permutations(core[:3]):
        jobs.append(("cfgall", ("stmtend", perm + (("investment", "ACTIVE"),))))
    # configured types for which the response has no ACTIVE account: every subset of the four configured types keeps an
    # ACTIVE (new) account; the configured accounts of the others are listed as PEND / AVAIL, or not listed at all
    types = list(CONFIGURED)
    for r in range(len(types) + 1):
        for keep in _it.combinations(types, r):
            if len(keep) == len(types):
                continue
            for treatment in ("listed-inactive", "not-listed"):
                seq = [(ty, "ACTIVE") for ty in keep]
                if treatment == "listed-inactive":
                    k = 0
                    for ty in types:
                        if ty not in keep:
                            for acctid in CONFIGURED[ty]:
                                seq.append((ty, ("PEND", "AVAIL")[k % 2], acctid))
                                k += 1
                rot = len(keep) % max(1, len(seq))
                seq = tuple(seq[rot:] + seq[:rot])
                jobs.append(("cfgall", ("stmt", seq)))
                if "investment" in keep or r <= 1:
                    jobs.append(("cfgall", ("stmtend", seq)))
    tally = ctx.pmap(dispatch, jobs)
    if tally.counts.get("dry-runs", 0) < 900 or tally.counts.get("all-runs", 0) < 500:
        vacuous(tally, f"vacuous: {tally.counts}")
    if not tally.fails:
        for o in ("dry-ok-stmt", "dry-ok-stmtend", "all-ok-stmt", "all-ok-stmtend"):
            if o not in tally.outcomes:
                vacuous(tally, f"vacuous: {o} never observed")
    tally.sample({"dryrun_argv": ["stmt", "--url", URL, "-u", "jdoe", "--dryrun", "--bankid", BANKID, "-C", "ch0-2", "-c", "cr0-1", "-C", "ch1-2", "-s", "20231231233000.005[-5.30:IST]"]})
    tally.sample({"all_acctinfors": [["checking", "PEND"], ["creditcard", "ACTIVE"], ["checking", "ACTIVE"]], "expect": "CHECKING ch2 and credit card cr1 requested, ch0 not"})
    cov = {
        "evaluations": tally.counts.get("evaluations", 0),
        "distinct_nontrivial": tally.counts.get("evaluations", 0) - 1,
        "rule": "A: `stmt --dryrun` for all 729 assignments of {0,1,2} ids to 6 account types and `stmtend --dryrun` for all 243 over 5 types (options interleaved on the command line), "
        "each date option alone x 4 notations, all 27 combinations of 3 date texts over (-s,-e,-a), every non-empty subset of the 4 include flags (with and without dates, and with -v -v = logging at DEBUG); printed request read by the "
        "reference reader and compared with the expected request; B: `stmt --all` / `stmtend --all` against the scripted server for every account sequence of length <=2 over 6 types x 3 statuses"
        + (", every ACTIVE-only sequence of length 3 and a seed-chosen quarter of the length-3 multisets" if ctx.quick else " and every sequence of length 3 (5832)") +
        "; + (configured account ids holding blanks, requested as listed without --all; every third nickname configured through an OFX Home id) the same for a nickname whose configuration already lists (other) accounts, bank id and broker id, over all orderings of one ACTIVE account per type with inactive ones in between; the statement "
        "request received must ask exactly the ACTIVE accounts; every run is a distinct command line / response",
        "dry_runs": tally.counts.get("dry-runs", 0),
        "all_runs": tally.counts.get("all-runs", 0),
        "exhaustive": True,
    }
    return {"tally": tally, "coverage": cov, "assumptions": ["--all is run with no accounts configured elsewhere (the interplay is not pinned down by the property)", "one bank id / broker id per response",
                                                              "--skipprofile is used with --all so that only the account-info and statement requests reach the server"]}


def hash_stable(s):
    return sum((i + 1) * (TYPES.index(ty) * 3 + STATUSES.index(st)) for i, (ty, st) in enumerate(s))


def replay(ctx, case):
    if case["part"] == "dryrun":
        private_xdg()
        print(run_cli(case["argv"]))
        return False
    t = (cfg_all_work if case["part"] == "cfg-all" else all_work)([(case["cmd"], tuple(tuple(x) for x in case["seq"]))])
    for sig, (n, c, d) in sorted(t.fails.items()):
        print(" ", sig, "|", d)
    return bool(t.fails)
