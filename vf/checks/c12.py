"""C12  Headers round-trip for every supported version; invalid headers are refused.

Valid side: make_header over all supported versions + every 1xx, security levels, UIDs over [A-Za-z0-9_-]
(length 1, 36, default) -> str -> parse_header -> equal fields, right kind.
Fault side: every single-field corruption / omission / adjacent transposition of the nine v1 / five v2 fields,
through constructor keywords and through header text; make_header for versions that are neither 1xx nor 2xx.
"""
import io
import itertools

from vf import ref_header as H
from vf.core import vacuous, HarnessError, Tally

LEVEL = "fault_enumeration"
BODY = "<OFX><A>x</A></OFX>"


def lib():
    from ofxtools import header

    return header


def uids(seed):
    a = H.UID_ALPHABET
    rot = seed % len(a)
    a2 = a[rot:] + a[:rot]
    full = [a2[:36], a2[28:], "-" * 36, "_" * 36, "a" * 36]
    singles = list(a)
    return singles, full


# ---------------------------------------------------------------------------------------------
def valid_case(t, hd, version, security, old, new):
    t.count("evaluations")
    case = {"kind": "valid", "version": version, "security": security, "old": old, "new": new}
    major = version // 100
    tag = f"v{major}"
    try:
        h = hd.make_header(version, security=security, oldfileuid=old, newfileuid=new)
        text = str(h)
    except Exception as e:
        t.fail(f"C12|{tag}|make_header|valid-input-refused", case, f"{type(e).__name__}: {e}")
        return
    exp = H.v1_fields(version, security, old=old, new=new) if major == 1 else H.v2_fields(version, security, old, new)
    # kind + what was written
    try:
        written = H.parse_written_v1(text) if major == 1 else H.parse_written_v2(text)
    except Exception as e:
        t.fail(f"C12|{tag}|str|wrong-kind-or-layout", case, f"{text!r}: {e}")
        return
    if written != exp:
        t.fail(f"C12|{tag}|str|fields-differ", case, f"written {written} expected {exp}")
        return
    want_cls = hd.OFXHeaderV1 if major == 1 else hd.OFXHeaderV2
    if type(h) is not want_cls:
        t.fail(f"C12|{tag}|make_header|wrong-class", case, type(h).__name__)
        return
    try:
        h2, body = hd.parse_header(io.BytesIO((text + BODY).encode("ascii")))
    except Exception as e:
        t.fail(f"C12|{tag}|parse|own-header-refused", case, f"{text!r}: {type(e).__name__}: {e}")
        return
    got = H.header_obj_fields(h2)
    if type(h2) is not want_cls or got != exp:
        t.fail(f"C12|{tag}|parse|fields-differ", case, f"{text!r} -> {got}, expected {exp}")
        return
    if body.strip() != BODY:
        t.fail(f"C12|{tag}|parse|body-differs", case, f"{text!r} + body -> {body!r}")
        return
    # class-level parse too
    try:
        h3, end = want_cls.parse(text)
        if H.header_obj_fields(h3) != exp:
            t.fail(f"C12|{tag}|parse|fields-differ", case, f"class parse {H.header_obj_fields(h3)}")
            return
    except Exception as e:
        t.fail(f"C12|{tag}|parse|own-header-refused", case, f"class parse {type(e).__name__}: {e}")
        return
    t.outcome("valid-ok-" + tag)


def edited_headers(t, hd):
    """a header object - made by make_header or returned by the parser - whose fields are then assigned other valid
    values renders those values: its text parses back to the edited fields"""
    import io as _io

    for v, v2 in ((102, 160), (103, 102), (203, 220), (220, 200)):
        for how in ("made", "parsed"):
            t.count("evaluations")
            case = {"kind": "edited", "version": v, "to": v2, "how": how}
            sig = f"C12|{'v1' if v < 200 else 'v2'}|edited-header"
            try:
                h = hd.make_header(v, security="NONE", oldfileuid="NONE", newfileuid="first-uid")
                if how == "parsed":
                    h, _ = hd.parse_header(_io.BytesIO((str(h) + BODY).encode("ascii")))
                h.version = v2
                h.security = "TYPE1"
                h.newfileuid = "second_uid-2"
                h.oldfileuid = "first-uid"
                h2, body = hd.parse_header(_io.BytesIO((str(h) + BODY).encode("ascii")))
            except Exception as e:
                t.fail(f"{sig}|raises-{type(e).__name__}", case, f"{type(e).__name__}: {e}")
                continue
            got = {k: getattr(h2, k) for k in ("version", "security", "oldfileuid", "newfileuid")}
            exp = {"version": v2, "security": "TYPE1", "oldfileuid": "first-uid", "newfileuid": "second_uid-2"}
            if got != exp:
                t.fail(f"{sig}|text-does-not-say-what-the-header-holds", case, f"{got} expected {exp}")
            else:
                t.outcome("edited-ok")


def valid_work(chunk):
    hd = lib()
    t = Tally()
    for version, security, old, new in chunk:
        valid_case(t, hd, version, security, old, new)
    return t


# ---------------------------------------------------------------------------------------------
def foreign_tokens(field):
    """tokens valid for *other* fields or near-misses of this one, never valid here"""
    pool = set()
    for f, dom in H.DOMAINS_V1.items():
        pool |= set(dom)
    pool |= {"200", "101", "XML", "OFXXML", "TYPE2", "type1", "ASCII", "UTF8", "UTF-16", "UTF-8", "8859-1", "CP1252", "GZIP", "ZIP", "X"}
    return sorted(x for x in pool if x not in H.DOMAINS_V1.get(field, []))


def expect_refused(t, sig, case, fn):
    """fn() must raise OFXHeaderError and return no header"""
    hd = lib()
    t.count("evaluations")
    try:
        r = fn()
    except hd.OFXHeaderError:
        t.outcome("refused")
        return
    except Exception as e:
        t.fail(sig + "|other-error-" + type(e).__name__, case, f"{type(e).__name__}: {e}")
        return
    t.fail(sig + "|accepted", case, f"-> {r!r}")


def v1_text_corruptions():
    """[(label, field, text)] header texts each with exactly one fault"""
    out = []
    base = H.v1_fields(102, old="NONE", new="NONE")
    for field in ("DATA", "SECURITY", "ENCODING", "CHARSET", "COMPRESSION", "OFXHEADER"):
        for tok in foreign_tokens(field):
            if field in ("DATA", "COMPRESSION", "ENCODING") and not tok.replace("-", "").isalnum():
                continue
            f = dict(base, **{field: tok})
            out.append((f"bad-{field}", field, tok, H.render_v1(f)))
    for v in ("abc", "1O2", "1020", "10200", "", "1.02"):
        out.append(("bad-VERSION", "VERSION", v, H.render_v1(dict(base, VERSION=v))))
    for field in ("OLDFILEUID", "NEWFILEUID"):
        out.append((f"overlong-{field}", field, "a" * 37, H.render_v1(dict(base, **{field: "a" * 37}))))
        out.append((f"overlong-{field}", field, "a" * 64, H.render_v1(dict(base, **{field: "a" * 64}))))
    for field in H.V1_FIELDS:
        if field == "COMPRESSION":
            continue  # optional in the library's grammar
        out.append((f"missing-{field}", field, None, H.render_v1(base, omit=(field,))))
    for i in range(len(H.V1_FIELDS) - 1):
        order = list(H.V1_FIELDS)
        order[i], order[i + 1] = order[i + 1], order[i]
        out.append((f"transposed-{order[i + 1]}-{order[i]}", order[i], None, H.render_v1(base, order=order)))
    return out


def v2_text_corruptions():
    out = []
    base = H.v2_fields(203)
    for tok in ("100", "201", "0", "abc", ""):
        out.append(("bad-OFXHEADER", "OFXHEADER", tok, H.render_v2(dict(base, OFXHEADER=tok))))
    for tok in ("abc", "2O3", "2030", "204", "212", "221", "299", "102", "103", "160", "300", ""):
        out.append(("bad-VERSION", "VERSION", tok, H.render_v2(dict(base, VERSION=tok))))
    for tok in ("TYPE2", "OFXSGML", "USASCII", "type1", "", "1252"):
        out.append(("bad-SECURITY", "SECURITY", tok, H.render_v2(dict(base, SECURITY=tok))))
    for field in ("OLDFILEUID", "NEWFILEUID"):
        out.append((f"overlong-{field}", field, "a" * 37, H.render_v2(dict(base, **{field: "a" * 37}))))
    for field in H.V2_FIELDS:
        out.append((f"missing-{field}", field, None, H.render_v2(base, omit=(field,))))
    for i in range(len(H.V2_FIELDS) - 1):
        order = list(H.V2_FIELDS)
        order[i], order[i + 1] = order[i + 1], order[i]
        out.append((f"transposed-{order[i + 1]}-{order[i]}", order[i], None, H.render_v2(base, order=order)))
    return out


def byte_corruptions():
    """[(label, version kind, bytes, text or None)]: one stray non-ASCII byte (or UTF-8 pair) at the start, in the middle or
    at the end of a field value - the value is then outside its domain however the bytes are decoded (dropping them
    would make it valid again).  v1: every field before NEWFILEUID (the last field has nothing behind it that bounds
    it); v2: the numeric and enumerated attributes."""
    out = []
    base = H.v1_fields(102, old="NONE", new="NONE")
    data = (H.render_v1(base) + BODY).encode("ascii")
    for field in H.V1_FIELDS[:-1]:
        val = base[field].encode("ascii")
        i = data.index(field.encode("ascii") + b":" + val) + len(field) + 1
        for pos in sorted({0, len(val) // 2, len(val)}):
            for b in (b"\xff", b"\x80", b"\xc3\xa9", b"\xe2\x82\xac"):
                out.append((f"stray-byte-in-{field}", 1, data[: i + pos] + b + data[i + pos :], None))
    base2 = H.v2_fields(203)
    text2 = H.render_v2(base2)
    for field in ("OFXHEADER", "VERSION", "SECURITY"):
        val = base2[field]
        i = text2.index(f'{field}="{val}"') + len(field) + 2
        for pos in sorted({0, len(val) // 2, len(val)}):
            for ins in ("\u00e9", "\ufffd", "\u20ac"):
                tx = text2[: i + pos] + ins + text2[i + pos :]
                out.append((f"stray-character-in-{field}", 2, (tx + BODY).encode("utf_8"), tx))
    return out


def ctor_corruptions():
    """[(label, cls name, kwargs)]"""
    out = []
    base1 = dict(version=102, ofxheader=100, data="OFXSGML", security="NONE", encoding="USASCII", charset="NONE", compression="NONE", oldfileuid="NONE", newfileuid="NONE")
    for field in ("data", "security", "encoding", "charset", "compression"):
        for tok in foreign_tokens(field.upper()):
            out.append((f"bad-{field.upper()}", "OFXHeaderV1", dict(base1, **{field: tok})))
    for tok in (200, 101, "200", "abc", 1):
        out.append(("bad-OFXHEADER", "OFXHeaderV1", dict(base1, ofxheader=tok)))
    for tok in ("abc", 1000, "1000", 10000, "1.5", -1000):
        out.append(("bad-VERSION", "OFXHeaderV1", dict(base1, version=tok)))
    for field in ("oldfileuid", "newfileuid"):
        out.append((f"overlong-{field.upper()}", "OFXHeaderV1", dict(base1, **{field: "a" * 37})))
    base2 = dict(version=203, ofxheader=200, security="NONE", oldfileuid="NONE", newfileuid="NONE")
    for tok in (100, 201, "abc", 1):
        out.append(("bad-OFXHEADER", "OFXHeaderV2", dict(base2, ofxheader=tok)))
    for tok in ("abc", 204, 212, 221, 299, 102, 103, 160, 300, 2030, "2O3", 199, 230):
        out.append(("bad-VERSION", "OFXHeaderV2", dict(base2, version=tok)))
    for tok in ("TYPE2", "OFXSGML", "type1", "USASCII"):
        out.append(("bad-SECURITY", "OFXHeaderV2", dict(base2, security=tok)))
    for field in ("oldfileuid", "newfileuid"):
        out.append((f"overlong-{field.upper()}", "OFXHeaderV2", dict(base2, **{field: "a" * 37})))
    return out


def faults(t):
    hd = lib()
    for label, field, tok, text in v1_text_corruptions():
        case = {"kind": "text", "v": 1, "label": label, "text": text}
        data = (text + BODY).encode("ascii")
        expect_refused(t, f"C12|v1|text|{label}", case, lambda: hd.parse_header(io.BytesIO(data)))
        if not label.startswith("missing-NEWFILEUID"):
            expect_refused(t, f"C12|v1|text-class-parse|{label}", case, lambda: hd.OFXHeaderV1.parse(text))
    for label, field, tok, text in v2_text_corruptions():
        case = {"kind": "text", "v": 2, "label": label, "text": text}
        data = (text + BODY).encode("ascii")
        expect_refused(t, f"C12|v2|text|{label}", case, lambda: hd.parse_header(io.BytesIO(data)))
        expect_refused(t, f"C12|v2|text-class-parse|{label}", case, lambda: hd.OFXHeaderV2.parse(text))
    for label, v, data, text in byte_corruptions():
        case = {"kind": "bytes", "v": v, "label": label, "hex": data.hex()}
        expect_refused(t, f"C12|v{v}|bytes|{label}", case, lambda: hd.parse_header(io.BytesIO(data)))
        if text is not None:
            expect_refused(t, f"C12|v{v}|text-class-parse|{label}", dict(case, text=text), lambda: hd.OFXHeaderV2.parse(text))
    for label, clsname, kw in ctor_corruptions():
        cls = getattr(hd, clsname)
        case = {"kind": "ctor", "cls": clsname, "label": label, "kwargs": {k: v for k, v in kw.items()}}
        expect_refused(t, f"C12|{clsname}|ctor|{label}", case, lambda: cls(**kw))
    for v in (0, 1, 99, 300, 301, 999, 1000, 1020, 2030, "abc", "", "1.02", -102, 3000):
        case = {"kind": "make_header", "version": v}
        expect_refused(t, "C12|make_header|version-not-1xx-2xx", case, lambda: hd.make_header(v))
    for v in (204, 205, 212, 219, 221, 299, "204"):
        case = {"kind": "make_header", "version": v}
        expect_refused(t, "C12|make_header|unsupported-2xx", case, lambda: hd.make_header(v))
    # the same refusals through the client's per-call version override (serialize / a dry-run request)
    from vf.core import private_xdg

    private_xdg()
    from ofxtools.Client import OFXClient
    from ofxtools.models.ofx import OFX

    for cfgv in (102, 203):
        cl = OFXClient("http://x/ofx", version=cfgv)
        ofx = OFX(signonmsgsrqv1=cl.signon("pw"))
        for v in (0, 1, 99, 300, 999, 1000, "", "abc", -102, 204, 299):
            case = {"kind": "client-version-override", "client_version": cfgv, "version": v}
            expect_refused(t, "C12|client.serialize|version-override-not-supported", case, lambda: cl.serialize(ofx, version=v))
            expect_refused(t, "C12|client.request_profile|version-override-not-supported", case, lambda: cl.request_profile(version=v, dryrun=True).read())
    for sec in ("TYPE2", "type1", "OFXSGML"):
        for v in (102, 203):
            expect_refused(t, "C12|make_header|bad-security", {"kind": "make_header", "version": v, "security": sec}, lambda: hd.make_header(v, security=sec))
    for v in (102, 203):
        for which in ("oldfileuid", "newfileuid"):
            expect_refused(t, "C12|make_header|overlong-uid", {"kind": "make_header", "version": v, which: "a" * 37}, lambda: hd.make_header(v, **{which: "a" * 37}))


def client_headers(t):
    """the header in front of what ONE client object writes, as its per-call version override goes from each supported
    version to each other one and back (ofxget's profile scan does this with one client): of the kind the version of
    that call asks for, with that version and the file UIDs of that call"""
    from vf.core import private_xdg

    private_xdg()
    from ofxtools.Client import OFXClient
    from ofxtools.models.ofx import OFX

    vs = H.SUPPORTED_V1 + H.SUPPORTED_V2
    for a in vs:
        for b in vs:
            if a == b:
                continue
            cl = OFXClient("http://x/ofx", version=a)
            ofx = OFX(signonmsgsrqv1=cl.signon("pw"))
            for i, v in enumerate((a, b, a)):
                t.count("evaluations")
                case = {"kind": "client-header-sequence", "client_version": a, "versions": [a, b, a], "step": i}
                old, new = (None, None) if i != 1 else ("o" * 36, "n" * 36)
                kw = {} if v == a and i == 0 else {"version": v}
                try:
                    data = cl.serialize(ofx, oldfileuid=old, newfileuid=new, **kw)
                    text = data.decode("ascii")
                except Exception as e:
                    t.fail("C12|client.serialize|version-sequence|supported-version-refused", case, f"{type(e).__name__}: {e}")
                    break
                major = v // 100
                cut = text.find("<OFX>")
                exp = H.v1_fields(v, None, old=old, new=new) if major == 1 else H.v2_fields(v, None, old, new)
                try:
                    written = H.parse_written_v1(text[:cut]) if major == 1 else H.parse_written_v2(text[:cut])
                except Exception as e:
                    t.fail("C12|client.serialize|version-sequence|wrong-kind-or-layout", case, f"{text[:cut]!r}: {e}")
                    break
                if written != exp:
                    t.fail("C12|client.serialize|version-sequence|fields-differ", case, f"written {written} expected {exp}")
                    break
            else:
                t.outcome("client-sequence-ok")


def selfcheck():
    f = H.v1_fields(102)
    assert H.parse_written_v1(H.render_v1(f)) == f
    f2 = H.v2_fields(203)
    assert H.parse_written_v2(H.render_v2(f2)) == f2


def run(ctx):
    selfcheck()
    hd = lib()
    singles, full = uids(ctx.seed)
    versions = sorted(set(H.SUPPORTED_V1 + H.SUPPORTED_V2 + list(range(100, 200))))
    jobs = []
    for v in versions:
        for sec in (None, "NONE", "TYPE1"):
            jobs.append((v, sec, None, None))
            for u in full:
                jobs.append((v, sec, u, u[::-1]))
            if v in H.SUPPORTED_V1 + H.SUPPORTED_V2:
                for ch in singles:
                    jobs.append((v, sec, ch, None))
                    jobs.append((v, sec, None, ch))
    tally = ctx.pmap(valid_work, jobs)
    faults(tally)
    edited_headers(tally, hd)
    client_headers(tally)
    if "refused" not in tally.outcomes or "valid-ok-v1" not in tally.outcomes or "valid-ok-v2" not in tally.outcomes:
        if not tally.fails:
            vacuous(tally, "vacuous: an outcome class was never observed")
    tally.sample({"valid": {"version": 220, "security": "TYPE1", "old": full[0], "new": full[0][::-1]}})
    tally.sample({"corruption": "v1 text with CHARSET:UTF-8 (a token of ENCODING) must be refused"})
    tally.sample({"corruption": v1_text_corruptions()[-1][3]})
    nfaults = tally.counts.get("evaluations", 0) - len(jobs)
    cov = {
        "evaluations": tally.counts.get("evaluations", 0),
        "distinct_nontrivial": nfaults,
        "rule": f"valid: {len(versions)} versions (all supported + every 100..199) x security (None,NONE,TYPE1) x UIDs (default, 5 of length 36 jointly covering "
        "[A-Za-z0-9_-], every single character as a 1-character UID for supported versions) = " + str(len(jobs)) + " round trips; 8 headers (made / parsed) edited by assignment and rendered again; faults (non-trivial cases): "
        "every foreign token (tokens of all other fields + near misses) per enumerated field, OFXHEADER of the other kind, VERSION non-numeric/4-digit/unsupported, "
        "37-character UIDs, every mandatory field removed, every adjacent pair transposed, one stray non-ASCII byte / character at 3 places of each field value "
        "(v1 fields before NEWFILEUID, v2 numeric and enumerated attributes; 4 resp. 3 byte patterns) - through header text (parse_header and class parse) and constructor "
        "keywords; make_header, OFXClient.serialize(version=) and request_profile(version=, dryrun) for versions outside 1xx/2xx and unsupported 2xx",
        "valid_round_trips": len(jobs),
        "fault_cases": nfaults,
        "exhaustive": True,
    }
    return {"tally": tally, "coverage": cov, "assumptions": ["COMPRESSION is optional in the library's grammar and not treated as mandatory", "a version-1 header may carry any three-digit VERSION"]}


def replay(ctx, case):
    hd = lib()
    t = Tally()
    if case["kind"] == "valid":
        valid_case(t, hd, case["version"], case["security"], case["old"], case["new"])
    elif case["kind"] == "client-header-sequence":
        client_headers(t)
    else:
        faults(t)
    for sig, (n, c, d) in sorted(t.fails.items()):
        print(" ", sig, "|", d)
    return bool(t.fails)
