"""C18  ofxget settings obey CLI > user file > FI db > OFX Home > defaults, and persist.

Each *run* re-imports ofxtools.scripts.ofxget (importlib.reload: both configuration files are read again as a new
process would), parses a command line, calls merge_config and - for persistence - the command handler against the
scripted server.  The user file lives in the private XDG_CONFIG_HOME; the FI database is a synthetic fi.cfg in a
private directory that ofxtools.config.CONFIGDIR points to before the script module is (re)loaded; OFX Home answers
come from the HTTP seam.
 1. precedence: every option with several sources x every subset of its sources (distinct marker per source), and
    every pair of options x every pair of sources;
 2. persistence: BFS over histories of runs (write / dry-run write / plain) on two nicknames; state = text of ofxget.cfg.
"""
import contextlib
import importlib
import io
import itertools
import os
import re
import warnings
from pathlib import Path

from vf import fakehttp as F
from vf import xstate
from vf.core import vacuous, HarnessError, Tally, private_xdg

LEVEL = "model_checking"
SOURCES = ["cli", "user", "fidb", "ofxhome"]
NICK = "mybank"

STR_OPTS = ["url", "org", "fid", "brokerid", "bankid", "appid", "appver", "language", "useragent", "user", "clientuid", "ofxhome"]
BOOL_OPTS = ["pretty", "unclosedelements", "nonewfileuid", "skipprofile"]
LIST_OPTS = ["checking", "savings", "moneymrkt", "creditline", "creditcard", "investment"]
INT_OPTS = ["version"]
HOME_OPTS = ["url", "org", "fid", "brokerid"]
USER_ONLY = ["user", "clientuid"] + LIST_OPTS  # no FI-database source
CLIFLAG = {"checking": "-C", "savings": "-S", "moneymrkt": "-M", "creditline": "-L", "creditcard": "-c", "investment": "-i", "user": "-u"}


def sources_of(opt):
    if opt in HOME_OPTS:
        return ["cli", "user", "fidb", "ofxhome"]
    if opt in USER_ONLY:
        return ["cli", "user"]
    return ["cli", "user", "fidb"]


def marker(opt, src):
    if opt == "url":
        return f"http://{src}.example/ofx"
    if opt == "version":
        return {"cli": 102, "user": 103, "fidb": 151}[src]
    if opt in BOOL_OPTS:
        return {"cli": True, "user": False, "fidb": True}[src]
    if opt in LIST_OPTS:
        return [f"{opt[:2]}-{src}-1", f"{opt[:2]}-{src}-2"] if src == "cli" else [f"{opt[:2]}-{src}-1"]
    if opt == "ofxhome":
        return {"cli": "1001", "user": "1002", "fidb": "1003"}[src]
    return f"{opt}-{src}"


DEFAULT = {"version": 203}


def default_of(opt):
    if opt in BOOL_OPTS:
        return False
    if opt in LIST_OPTS:
        return []
    return DEFAULT.get(opt, "")


def cfg_text(v):
    if isinstance(v, bool):
        return "true" if v else "false"
    if isinstance(v, list):
        return ", ".join(v)
    return str(v)


def cli_args(opt, v):
    if opt in BOOL_OPTS:
        return [f"--{opt}"] if v else []
    if opt in LIST_OPTS:
        out = []
        for x in v:
            out += [CLIFLAG[opt], x]
        return out
    return [f"--{opt}", str(v)]


class Env:
    """the per-process world: config dirs, fi.cfg, user file, OFX Home server, reloaded script module"""

    def __init__(self):
        root = private_xdg()
        from ofxtools import config

        self.fidb = Path(root) / "fidb"
        self.fidb.mkdir(exist_ok=True)
        config.CONFIGDIR = self.fidb  # documented seam: the bundled FI database is replaced by a synthetic one
        self.userfile = config.USERCONFIGDIR / "ofxget.cfg"
        self.net = F.Net()
        self.net.install()
        self.home_ids = {}
        self.net.handler = self.handler
        self.og = None

    def close(self):
        self.net.uninstall()

    def handler(self, ex):
        if ex.url.startswith("http://www.ofxhome.com/"):
            m = re.search(r"lookup=(\w+)", ex.url)
            rec = self.home_ids.get(m.group(1)) if m else None
            if rec is None:
                return 200, [], b"<institution id=\"0\"></institution>"
            xml = f'<institution id="{m.group(1)}"><name>N</name><fid>{rec["fid"]}</fid><org>{rec["org"]}</org><url>{rec["url"]}</url><brokerid>{rec["brokerid"]}</brokerid>' \
                  "<ofxfail>0</ofxfail><sslfail>0</sslfail><lastofxvalidation>2019-04-29 22:01:02</lastofxvalidation><lastsslvalidation>2019-04-29 22:01:02</lastsslvalidation></institution>"
            return 200, [("Content-Type", "text/xml")], xml.encode()
        rq = F.read_request(ex.body)
        if rq["kind"] == "profile":
            import datetime

            return F.ok(F.profile_response(rq["trnuids"][0], datetime.datetime(2020, 1, 1, tzinfo=datetime.timezone.utc), {"bank": ex.url, "cc": ex.url, "inv": ex.url}))
        return F.ok(F.generic_response(rq["kind"], rq["trnuids"]))

    def write_fidb(self, sections):
        txt = "[NAMES]\n1003 = Synthetic Bank\n\n"
        for nick, kv in sections.items():
            txt += f"[{nick}]\n" + "".join(f"{k} = {cfg_text(v)}\n" for k, v in kv.items()) + "\n"
        (self.fidb / "fi.cfg").write_text(txt)

    def write_user(self, sections, default=None):
        self.userfile.parent.mkdir(parents=True, exist_ok=True)
        txt = ""
        if default:
            txt += "[DEFAULT]\n" + "".join(f"{k} = {cfg_text(v)}\n" for k, v in default.items()) + "\n"
        for nick, kv in sections.items():
            txt += f"[{nick}]\n" + "".join(f"{k} = {cfg_text(v)}\n" for k, v in kv.items()) + "\n"
        self.userfile.write_text(txt)

    def remove_user(self):
        if self.userfile.exists():
            self.userfile.unlink()
        d = self.userfile.parent.parent.parent / "data" / "ofxtools" / "fiprofiles"
        import shutil

        from ofxtools import config

        shutil.rmtree(config.DATADIR / "fiprofiles", ignore_errors=True)

    def fresh(self):
        """what a new process does: (re)import the script module, reading both configuration files"""
        if self.og is None:
            self.og = importlib.import_module("ofxtools.scripts.ofxget")
        self.og = importlib.reload(self.og)
        return self.og

    def merge(self, argv):
        og = self.fresh()
        ns = og.make_argparser().parse_args(argv)
        with contextlib.redirect_stdout(io.StringIO()), warnings.catch_warnings():
            warnings.simplefilter("ignore")
            return og, og.merge_config(ns, og.USERCFG)

    def run(self, argv):
        og, args = self.merge(argv)
        eff = {o: args[o] for o in og.CONFIGURABLE}
        with contextlib.redirect_stdout(io.StringIO()), warnings.catch_warnings():
            warnings.simplefilter("ignore")
            og.REQUEST_HANDLERS[args["request"]](args)
        return eff


# ---------------------------------------------------------------------------------------------
# 1. precedence
# ---------------------------------------------------------------------------------------------
def setup_sources(env, assignment):
    """assignment: {opt: set(sources present)} -> writes fi.cfg / user file, returns argv options + expected values"""
    fidb, user, cli = {}, {}, []
    home = {}
    for opt, srcs in assignment.items():
        for s in srcs:
            v = marker(opt, s) if s != "ofxhome" else None
            if s == "cli":
                cli += cli_args(opt, v)
            elif s == "user":
                user[opt] = v
            elif s == "fidb":
                fidb[opt] = v
            else:
                home[opt] = True
    # effective OFX Home id (the id itself obeys the precedence); an id is needed for the OFX Home source to exist
    if home and not any(o == "ofxhome" for o in assignment):
        fidb["ofxhome"] = "1003"
    env.write_fidb({NICK: fidb} if fidb else {})
    if user:
        env.write_user({NICK: user})
    else:
        env.remove_user()
    # every id answers with its own markers
    env.home_ids = {hid: {k: (f"http://home{hid}.example/ofx" if k == "url" else f"{k}-home{hid}") for k in HOME_OPTS} for hid in ("1001", "1002", "1003")}
    return cli


def expected_values(assignment):
    """the model: per option, the highest-ranking source present wins: CLI > user file > FI db > OFX Home > default.
    OFX Home exists as a source iff an OFX Home id is in effect (the id itself obeys the same precedence)."""
    eff_id = ""
    if "ofxhome" in assignment:
        for s in ("cli", "user", "fidb"):
            if s in assignment["ofxhome"]:
                eff_id = marker("ofxhome", s)
                break
    elif any("ofxhome" in srcs for srcs in assignment.values()):
        eff_id = "1003"  # setup_sources put this id into the FI database section

    def home(opt):
        return f"http://home{eff_id}.example/ofx" if opt == "url" else f"{opt}-home{eff_id}"

    exp = {}
    for opt in list(assignment) + (HOME_OPTS if eff_id else []):
        srcs = assignment.get(opt, set())
        val = None
        for s in ("cli", "user", "fidb"):
            if s in srcs:
                val = marker(opt, s)
                break
        if val is None and opt in HOME_OPTS and eff_id:
            val = home(opt)
        if val is None:
            val = default_of(opt)
        exp[opt] = val
    if "ofxhome" not in assignment and eff_id:
        exp["ofxhome"] = eff_id
    return exp, eff_id


CLIENT_ATTRS = [("url", "url"), ("user", "userid"), ("clientuid", "clientuid"), ("org", "org"), ("fid", "fid"), ("version", "version"), ("appid", "appid"), ("appver", "appver"),
                ("language", "language"), ("pretty", "prettyprint"), ("unclosedelements", "close_elements"), ("bankid", "bankid"), ("brokerid", "brokerid"), ("useragent", "useragent")]


def prec_work(chunk):
    env = Env()
    t = Tally()
    try:
        for assignment in chunk:
            assignment = {k: set(v) for k, v in assignment}
            t.count("evaluations")
            t.count("precedence-runs")
            cli = setup_sources(env, assignment)
            argv = ["stmt", NICK, "--dryrun"] + cli
            case = {"part": "precedence", "assignment": {k: sorted(v) for k, v in assignment.items()}}
            label = "+".join(f"{o}:{'/'.join(s for s in SOURCES if s in srcs) or 'none'}" for o, srcs in sorted(assignment.items()))
            try:
                og, args = env.merge(argv)
            except BaseException as e:
                t.fail(f"C18|precedence|{'+'.join(sorted(assignment))}|merge-raises-{type(e).__name__}", case, f"{label}: {type(e).__name__}: {str(e)[:150]}")
                continue
            exp, eff_id = expected_values(assignment)
            for opt, want in exp.items():
                got = args[opt]
                if got != want or type(got) is not type(want):
                    srcs = assignment.get(opt, set())
                    winner = next((s for s in SOURCES if s in srcs), "ofxhome" if opt in HOME_OPTS and eff_id else "default")
                    t.fail(f"C18|precedence|{opt}|winner-should-be-{winner}|wrong-value", case, f"{label}: {opt} = {got!r}, expected {want!r}")
                    break
            else:
                # ... and that value is the one the script acts on: the client it builds from the merged settings
                try:
                    with contextlib.redirect_stdout(io.StringIO()), warnings.catch_warnings():
                        warnings.simplefilter("ignore")
                        cl = og.init_client(args)
                except BaseException as e:
                    if isinstance(e, ValueError) and args.get("unclosedelements") and args.get("version", 0) >= 200:
                        t.outcome("prec-ok-combination-refused")  # OFXv2 without end tags does not exist: refusing the effective pair is right
                        continue
                    t.fail(f"C18|precedence|{'+'.join(sorted(assignment))}|init_client-raises-{type(e).__name__}", case, f"{label}: {type(e).__name__}: {str(e)[:150]}")
                    continue
                bad = None
                for opt, attr in CLIENT_ATTRS:
                    v = args.get(opt)
                    if opt == "unclosedelements":
                        want_attr = not v
                    elif opt == "pretty":
                        want_attr = bool(v)
                    elif v in (None, "", [], 0):
                        continue  # nothing set anywhere: the client's own default applies
                    else:
                        want_attr = v
                    got_attr = getattr(cl, attr, "<no such attribute>")
                    if got_attr != want_attr:
                        bad = (opt, attr, got_attr, want_attr)
                        break
                if bad:
                    t.fail(f"C18|precedence|{bad[0]}|client-built-with-another-value", case, f"{label}: OFXClient.{bad[1]} = {bad[2]!r}, value in effect {bad[3]!r}")
                else:
                    t.outcome("prec-ok")
    finally:
        env.close()
    return t


def precedence_jobs(thorough):
    jobs = []
    opts = STR_OPTS + BOOL_OPTS + LIST_OPTS + INT_OPTS
    for o in opts:
        ss = sources_of(o)
        for r in range(0, len(ss) + 1):
            for sub in itertools.combinations(ss, r):
                jobs.append(((o, tuple(sub)),))
    for o1, o2 in itertools.combinations(opts, 2):
        for s1 in sources_of(o1):
            for s2 in sources_of(o2):
                if s1 == s2 and not thorough:
                    continue
                jobs.append(((o1, (s1,)), (o2, (s2,))))
    return jobs


# ---------------------------------------------------------------------------------------------
# 2. persistence
# ---------------------------------------------------------------------------------------------
N1, N2 = "mybank", "otherbank"
OPTSETS = [
    ("url-plain", {"url": "http://bank.example/ofx"}),
    ("url-special", {"url": "https://bank.example:8443/ofx?a=1&b=2;c=d#x"}),
    ("url-percent", {"url": "https://bank.example/ofx?q=a%20b"}),
    ("version-102", {"version": 102}),
    ("version-default", {"version": 203}),
    ("version-220", {"version": 220}),
    ("format", {"pretty": True, "unclosedelements": True, "version": 103}),
    ("ids", {"org": "ORG", "fid": "FID", "bankid": "123", "brokerid": "brk.example"}),
    ("user", {"user": "jdoe", "clientuid": "my-client-uid-1"}),
    ("accts-1", {"checking": ["1"], "bankid": "123"}),
    ("accts-many", {"checking": ["1", "2", "3"], "creditcard": ["4"], "investment": ["5", "6"], "bankid": "123", "brokerid": "brk.example"}),
    ("app", {"appid": "APP", "appver": "0100", "language": "FRA", "useragent": "UA/1"}),
    ("flags", {"nonewfileuid": True, "skipprofile": True}),
    ("none", {}),
]
DEEP_SETS = ["version-102", "version-default", "version-220", "format", "url-plain", "none"]
PASSWORD = "s3cr3t-p4ssw0rd"
UUID_RE = re.compile(r"[0-9A-F]{8}-[0-9A-F]{4}-[0-9A-F]{4}-[0-9A-F]{4}-[0-9A-F]{12}")


class PersistSystem:
    def __init__(self, env, preset=False):
        self.env = env
        self.preset = preset

    def argv(self, nick, opts, mode):
        a = ["stmt", nick, "--password", PASSWORD]
        o = dict(opts)
        if nick == N2 and "url" not in o:
            o["url"] = "http://other.example/ofx"
        for k, v in o.items():
            a += cli_args(k, v)
        if mode == "write":
            a.append("--write")
        elif mode == "dryrun-write":
            a += ["--write", "--dryrun"]
        return a

    def plain(self, nick):
        try:
            og, args = self.env.merge(["stmt", nick, "--dryrun"])
            return {o: args[o] for o in og.CONFIGURABLE}
        except BaseException as e:
            return {"<error>": f"{type(e).__name__}: {e}"}

    def replay(self, history):
        env = self.env
        env.remove_user()
        env.write_fidb({N1: {"url": "http://fidb.example/ofx", "version": 102, "ofxhome": "1003", "org": "FIDBORG", "pretty": True, "nonewfileuid": True}})
        if self.preset:
            # the user has overridden FI-database settings by hand - among them booleans set to false, which the
            # command line (store_true options) can never express
            env.write_user({N1: {"pretty": False, "nonewfileuid": False, "version": 203, "appid": "HAPP"}, N2: {"url": "http://hand.example/ofx", "unclosedelements": False}})
        env.home_ids = {"1003": {"url": "http://home.example/ofx", "org": "HOMEORG", "fid": "HOMEFID", "brokerid": "homebrk"}}
        fails = []
        default_uid = None
        for i, (nick, setname, mode) in enumerate(history):
            last = i == len(history) - 1
            opts = dict(OPTSETS)[setname]
            before_text = env.userfile.read_text() if env.userfile.exists() else None
            other = N2 if nick == N1 else N1
            other_before = self.plain(other) if last else None
            err = None
            eff = None
            try:
                eff = env.run(self.argv(nick, opts, mode))
            except BaseException as e:
                err = e
            after_text = env.userfile.read_text() if env.userfile.exists() else None
            m = re.search(r"^\[DEFAULT\]\s*\n(?:.*\n)*?clientuid\s*=\s*(\S+)", after_text or "", re.M)
            uid_now = m.group(1) if m else None
            if last:
                case = {"part": "persist", "history": [list(h) for h in history], "preset": self.preset}
                sig = f"C18|persist|{setname}|{mode}" + ("|hand-edited-file" if self.preset else "")

                def fail(kind, detail):
                    fails.append((f"{sig}|{kind}", case, detail))

                if err is not None and isinstance(err, ValueError) and "must close all tags" in str(err):
                    pass  # a 2xx version with end tags switched off (persisted earlier): refusing is C06's demand
                elif err is not None and "Value is required" in str(err) and ("bankid" in str(err) or "brokerid" in str(err)):
                    pass  # accounts persisted earlier without a bank / broker id: the request cannot be composed
                elif err is not None:
                    fail(f"run-raises-{type(err).__name__}", f"{type(err).__name__}: {str(err)[:200]}")
                else:
                    if PASSWORD in (after_text or ""):
                        fail("password-stored", "")
                    if mode in ("dryrun-write", "plain"):
                        if after_text != before_text:
                            fail("file-changed-without-a-writing-run", f"{before_text!r} -> {after_text!r}")
                    else:
                        again = self.plain(nick)
                        if "<error>" in again:
                            fail("next-run-fails", again["<error>"])
                        else:
                            for o, v in eff.items():
                                if o == "clientuid" and "clientuid" not in opts:
                                    continue
                                if again.get(o) != v:
                                    fail(f"{o}-not-persisted", f"{o}: in effect {v!r} when saved, {again.get(o)!r} on the next run (history {[list(h) for h in history]})")
                                    break
                        if uid_now is None:
                            fail("no-default-clientuid", after_text or "")
                        other_after = self.plain(other)
                        drop = lambda d: {k: v for k, v in d.items() if k != "clientuid"}
                        if drop(other_after) != drop(other_before):
                            diff = {k: (other_before.get(k), other_after.get(k)) for k in other_after if other_after.get(k) != other_before.get(k) and k != "clientuid"}
                            fail("other-nickname-affected", f"{other}: {diff}")
                    if default_uid is not None and uid_now != default_uid:
                        fail("default-clientuid-changed", f"{default_uid} -> {uid_now}")
            if default_uid is None:
                default_uid = uid_now
        text = env.userfile.read_text() if env.userfile.exists() else ""
        key = UUID_RE.sub("<UUID>", text)
        return key, fails


def persist_work(chunk):
    env = Env()
    t = Tally()
    try:
        for (first, depth) in chunk:
            preset = False
            if first == "preset":
                preset, first = True, None
            sysm = PersistSystem(env, preset)
            events = [(n, s, m) for n in (N1, N2) for (s, _) in OPTSETS for m in ("write", "dryrun-write")] + [(N1, "none", "plain")]
            if isinstance(first, tuple) and first and first[0] == "deep":
                # depth-3 histories of writing runs over the option sets that interact through defaults (version, format, url)
                _, f0 = first
                deep_events = [(n, s_, "write") for n in (N1, N2) for s_ in DEEP_SETS]
                r = xstate.bfs(_Sub(sysm, f0), deep_events, depth - 1, t)
            elif first is None:
                # depth 1: every event from the initial state
                r = xstate.bfs(sysm, events, 1, t)
            else:
                # the sub-tree below one state-changing first event (dry runs and plain runs lead back to the state they
                # started from, which BFS de-duplicates: their sub-trees are the initial state's)
                r = xstate.bfs(_Sub(sysm, first), events, depth - 1, t)
            t.count("states", r["states"])
            t.count("transitions", r["transitions"])
            if r["samples"]:
                t.sample({"part": "persist", "first": repr(first), "history": r["samples"][0][0], "state_key": r["samples"][0][1][:200]})
    finally:
        env.close()
    return t


class _Sub:
    def __init__(self, sysm, first):
        self.sysm, self.first = sysm, first

    def replay(self, history):
        return self.sysm.replay((self.first,) + tuple(history))


def dispatch(chunk):
    t = Tally()
    for kind, job in chunk:
        if kind == "precgroup":
            t.merge(prec_work(job))
        else:
            t.merge(persist_work([job]))
    return t


def run(ctx):
    pj = precedence_jobs(ctx.thorough)
    depth = 2 if ctx.quick else 3
    firsts = [(n, s, m) for n in (N1, N2) for (s, _) in OPTSETS for m in ("write",)]
    jobs = [("persist", (None, 1)), ("persist", ("preset", 1))] + [("persist", (f, 2)) for f in firsts]
    if ctx.thorough:
        jobs += [("persist", (("deep", (n, s_, "write")), 3)) for n in (N1, N2) for s_ in DEEP_SETS]
    rot = ctx.seed % len(pj)
    pj = pj[rot:] + pj[:rot]
    jobs += [("precgroup", pj[i : i + 40]) for i in range(0, len(pj), 40)]
    tally = ctx.pmap(dispatch, jobs, chunk=1)
    if tally.counts.get("precedence-runs", 0) < 1200 or tally.counts.get("transitions", 0) < 500:
        vacuous(tally, f"vacuous: {tally.counts}")
    if not tally.fails and "prec-ok" not in tally.outcomes:
        vacuous(tally, "vacuous: no precedence run agreed with the model")
    cov = {
        "states": tally.counts.get("states", 0),
        "transitions": tally.counts.get("transitions", 0),
        "traces_validated_against_impl": tally.counts.get("transitions", 0),
        "samples": tally.samples[:4] or ["(none)"],
        "precedence_runs": tally.counts.get("precedence-runs", 0),
        "rule": "precedence: 23 options (12 string, 4 boolean, 6 account lists, version) x every subset of their sources (CLI, user file, FI db, OFX Home where applicable) with a distinct marker per "
        "source, + every pair of options x every pair of " + ("sources" if ctx.thorough else "different sources") + "; each run writes the two configuration files, re-imports the script module and compares "
        f"merge_config's mapping with the model (highest-ranking source present wins); persistence: BFS to depth 2" + ("" if ctx.quick else " (and to depth 3 over the 12 writing events of the 6 option sets that interact through defaults)") + " over 57 events (2 nicknames x 14 option sets x write/dry-run write, + a plain run), "
        "from an empty user file and (depth 1) from a hand-edited one that overrides FI-database booleans with false; state = text of ofxget.cfg (generated UUIDs normalised; sub-trees below non-writing first events coincide with the initial state's and are explored once); after every writing run a fresh plain "
        "run must give the same effective value for every persistable option, the other nickname must be unaffected, the password must not be in the file, a dry run must leave the file byte-identical, "
        "the default CLIENTUID must be created once and never change",
        "depth_bound": depth,
        "exhaustive": True,
    }
    return {"tally": tally, "coverage": cov, "assumptions": [
        "ofxtools.config.CONFIGDIR is pointed at a synthetic fi.cfg before the script module is loaded (the only library attribute the harness sets)",
        "keyring paths cannot run here (python-keyring is not installed); --password is always given"]}


def replay(ctx, case):
    env = Env()
    try:
        if case["part"] == "precedence":
            t = Tally()
            assignment = tuple((k, tuple(v)) for k, v in case["assignment"].items())
            env.close()
            t = prec_work([assignment])
            for sig, (n, c, d) in sorted(t.fails.items()):
                print(" ", sig, "|", d)
            return bool(t.fails)
        key, fails = PersistSystem(env, case.get("preset", False)).replay(tuple(tuple(h) for h in case["history"]))
        print(" ofxget.cfg:\n" + key)
        for sig, c, d in fails:
            print(" ", sig, "|", d)
        return bool(fails)
    finally:
        env.close()
