"""C04  Every constraint a model class declares is enforced at every way of building it.

classes x each declared or inherited constraint (read by vf.ref_schema from the class dictionaries) x both routes
(keyword constructor, Aggregate.from_etree) x a violating and a boundary variant obtained from a valid instance by
exactly one change.  Violating => an exception and no instance; boundary => an instance; every instance obtained is
re-validated by the independent validator.
"""
import warnings
import xml.etree.ElementTree as ET

from vf import ref_schema as S
from vf import universe as U
from vf import wire
from vf.checks import c11
from vf.core import vacuous, HarnessError, Tally

LEVEL = "fault_enumeration"


def to_et(sterm):
    tag, body = sterm
    e = ET.Element(tag)
    if isinstance(body, str):
        e.text = body
    else:
        for ch in body:
            e.append(to_et(ch))
    return e


def via_ctor(term):
    return U.build(term)


def via_tree(sterm):
    from ofxtools.models.base import Aggregate

    return Aggregate.from_etree(to_et(sterm))


def attempt(fn, arg):
    with warnings.catch_warnings(record=True) as w:
        warnings.simplefilter("always")
        try:
            inst = fn(arg)
            return ("ok", inst, [x.category.__name__ for x in w])
        except Exception as e:
            return ("exc", e, [x.category.__name__ for x in w])


class Probe:
    def __init__(self, t, clsname):
        self.t = t
        self.cls = clsname

    def must_reject(self, route, what, constraint, fn, arg, case):
        self.t.count("evaluations")
        self.t.count("violating")
        r = attempt(fn, arg)
        if r[0] == "ok":
            self.t.fail(f"C04|{self.cls}|{constraint}|{route}|violation-accepted", dict(case, route=route), f"{what}: built {r[1]!r}")
        else:
            self.t.outcome("rejected-" + route)

    def whatever_is_built_must_be_valid(self, route, what, constraint, fn, arg, case):
        """inputs whose acceptance is the library's choice: a refusal is fine, an instance must satisfy its class"""
        self.t.count("evaluations")
        self.t.count("violating")
        r = attempt(fn, arg)
        if r[0] == "exc":
            self.t.outcome("rejected-" + route)
            return
        probs = S.validate(r[1])
        if probs:
            self.t.fail(f"C04|{self.cls}|{constraint}|{route}|instance-violates-its-class", dict(case, route=route), f"{what}: {probs[0]}")
        else:
            self.t.outcome("accepted-" + route)

    def must_accept(self, route, what, constraint, fn, arg, case, expect_warning=None):
        self.t.count("evaluations")
        self.t.count("boundary")
        r = attempt(fn, arg)
        if r[0] == "exc":
            self.t.fail(f"C04|{self.cls}|{constraint}|{route}|boundary-rejected", dict(case, route=route), f"{what}: {type(r[1]).__name__}: {str(r[1])[:200]}")
            return
        probs = S.validate(r[1])
        if probs and not expect_warning:
            self.t.fail(f"C04|{self.cls}|{constraint}|{route}|instance-violates-its-class", dict(case, route=route), probs[0])
            return
        if expect_warning and expect_warning not in r[2]:
            self.t.fail(f"C04|{self.cls}|{constraint}|{route}|no-warning", dict(case, route=route), f"{what}: warnings {r[2]}")
            return
        self.t.outcome("accepted-" + route)


def with_kw(term, k, v):
    name, kw, mem = term
    cls = U.cls_by_name(name)
    kw2 = dict(kw)
    if v is None:
        kw2.pop(k, None)
    else:
        kw2[k] = v
    return (name, {c.name: kw2[c.name] for c in S.children(cls) if c.name in kw2}, list(mem))


def touch_bases(cls):
    """read the introspection properties of every base class, root first - what `dir()`/documentation tools or a user
    looking at a base class do; what a class enforces must not depend on whether that happened before"""
    from ofxtools.models.base import Aggregate

    for base in reversed(cls.__mro__):
        if isinstance(base, type) and issubclass(base, Aggregate):
            for prop in ("spec", "spec_no_listaggregates", "elements", "subaggregates", "unsupported", "listaggregates", "listelements"):
                try:
                    getattr(base, prop)
                except Exception:
                    pass


def custom_candidates(cls, mn, cm):
    """[(description, term)]: variations of the MIN term around the class-specific rule of cls - violating and boundary"""
    n = cls.__name__
    name, kw, mem = mn
    dv = lambda k: U.default_value(cm[k]) if cm[k].kind == "elem" else U.MIN(cm[k].target)
    kinds = {c.target.__name__: c for c in cm.values() if c.kind == "lagg"}
    mk = lambda k, i=0: U.member_default(kinds[k], i)
    out = []
    if n in ("MSGSETCORE", "MFACHALLENGERS", "CONTRIBINFO", "MSGSETLIST", "TAX1099MSGSRQV1", "TAX1099MSGSRSV1", "TAX1099MSGSETV1", "ACCTINFO", "TAX1099RS"):
        out.append(("no member at all", (name, kw, [])))
    if n == "TAX1099RS":
        out.append(("only FIDIRECTDEPOSITINFO members", (name, kw, [mk("FIDIRECTDEPOSITINFO")])))
        out.append(("a form and a FIDIRECTDEPOSITINFO", (name, kw, [mk("FIDIRECTDEPOSITINFO")] + list(mem))))
    if n == "ACCTINFO":
        b, c, i = mk("BANKACCTINFO"), mk("CCACCTINFO"), mk("INVACCTINFO")
        out += [("two BANKACCTINFO, adjacent", (name, kw, [b, mk("BANKACCTINFO", 1)])), ("two BANKACCTINFO around a CCACCTINFO", (name, kw, [b, c, mk("BANKACCTINFO", 1)])),
                ("two CCACCTINFO around two others", (name, kw, [c, b, i, mk("CCACCTINFO", 1)])), ("one of each service", (name, kw, [b, c, i]))]
    if n == "OFX":
        rs = "signonmsgsrsv1" in kw
        other = next(c for c in cm.values() if c.kind == "sub" and c.name.endswith("rqv1" if rs else "rsv1") and not c.name.startswith("signon"))
        out.append(("request and response message sets mixed", with_kw(mn, other.name, U.MIN(other.target))))
    if n == "SONRQ":
        base = with_kw(with_kw(with_kw(mn, "userid", None), "userpass", None), "userkey", None)
        out += [("USERID without USERPASS", with_kw(base, "userid", dv("userid"))), ("USERPASS without USERID", with_kw(base, "userpass", dv("userpass"))),
                ("neither credentials nor USERKEY", base), ("USERID, USERPASS and USERKEY", with_kw(with_kw(with_kw(base, "userid", dv("userid")), "userpass", dv("userpass")), "userkey", dv("userkey"))),
                ("USERID and USERKEY", with_kw(with_kw(base, "userid", dv("userid")), "userkey", dv("userkey")))]
    if n == "CONTRIBSECURITY":
        base = (name, {k: v for k, v in kw.items() if k == "secid"}, mem)
        out += [("no source", base), ("a percentage and an amount", with_kw(with_kw(base, "pretaxcontribpct", dv("pretaxcontribpct")), "aftertaxcontribamt", dv("aftertaxcontribamt"))),
                ("amounts only", with_kw(with_kw(base, "pretaxcontribamt", dv("pretaxcontribamt")), "aftertaxcontribamt", dv("aftertaxcontribamt")))]
    if n == "EXTDPMT":
        out += [("neither EXTDPMTDSC nor EXTDPMTINV", (name, {k: v for k, v in kw.items() if k != "extdpmtdsc"}, [])),
                ("EXTDPMTINV only", (name, {k: v for k, v in kw.items() if k != "extdpmtdsc"}, [mk("EXTDPMTINV")]))]
    if n == "EXTDPAYEE":
        base = with_kw(with_kw(with_kw(mn, "payeeid", None), "idscope", None), "name", None)
        p = with_kw(base, "payeeid", dv("payeeid"))
        out += [("PAYEEID alone", p), ("PAYEEID with IDSCOPE only", with_kw(p, "idscope", dv("idscope"))), ("PAYEEID with NAME only", with_kw(p, "name", dv("name"))),
                ("PAYEEID with IDSCOPE and NAME", with_kw(with_kw(p, "idscope", dv("idscope")), "name", dv("name")))]
    if n == "TAX1099R_V100":
        base = with_kw(mn, "irasepsimp", None)
        for k in ("grossdist", "taxamt", "fedtaxwh", "sttaxwh", "lcltaxwh"):
            if k not in cm or cm[k].kind != "elem":
                continue
            out.append((f"{k.upper()} without IRASEPSIMP", with_kw(base, k, dv(k))))
        out.append(("GROSSDIST with IRASEPSIMP", with_kw(with_kw(base, "grossdist", dv("grossdist")), "irasepsimp", dv("irasepsimp"))))
    if n == "TAX1099MISC_V100":
        base = with_kw(with_kw(mn, "sttaxwh", None), "payerstate", None)
        out += [("STTAXWH without PAYERSTATE", with_kw(base, "sttaxwh", dv("sttaxwh"))), ("STTAXWH with PAYERSTATE", with_kw(with_kw(base, "sttaxwh", dv("sttaxwh")), "payerstate", dv("payerstate")))]
    return out


def class_probes(t, cls):
    n = cls.__name__
    touch_bases(cls)
    P = Probe(t, n)
    chs = S.children(cls)
    cm = {c.name: c for c in chs}
    opt, req = S.declared_groups(cls)
    ingroup = {m for g in list(opt) + list(req) for m in g}
    mn, mx = U.MIN(cls), U.MAXS(cls)
    # sanity: both baselines build and validate on both routes
    for bname, base in (("MIN", mn), ("MAXS", mx)):
        case = {"cls": n, "probe": "baseline", "base": bname}
        P.must_accept("ctor", bname, "baseline", via_ctor, base, case)
        if n == "TAX1099INT_V100" and bname == "MAXS":
            continue  # its own list position defect is C13's/C01's finding; the tree here is ours, in valid order, see below
        P.must_accept("tree", bname, "baseline", via_tree, wire.doc(base), case)
    for c in chs:
        if c.kind == "unsup":
            continue
        # ---- required
        if c.kind in ("elem", "sub") and c.required:
            t.count("constraints")
            case = {"cls": n, "probe": "required", "child": c.name}
            for bname, base in (("MIN", mn), ("MAXS", mx)):
                if c.name not in base[1]:
                    continue
                bad = with_kw(base, c.name, None)
                P.must_reject("ctor", f"{bname} without {c.name}", f"required:{c.name}", via_ctor, bad, case)
                P.must_reject("tree", f"{bname} without {c.name}", f"required:{c.name}", via_tree, wire.doc(bad), case)
        if c.kind not in ("elem", "lelem"):
            continue
        # base document containing the child
        base = U.min_with(cls, c)
        if c.kind == "elem":
            path = (c.name,)
            setv = lambda v, base=base, c=c: with_kw(base, c.name, v)
        else:
            idx = next(i for i, m in enumerate(base[2]) if not S._isterm(m))
            path = (("#", idx),)
            setv = lambda v, base=base, idx=idx: (base[0], base[1], [v if i == idx else m for i, m in enumerate(base[2])])
        settext = lambda txt, base=base, path=path: wire.doc(base, {path: txt})
        case = {"cls": n, "probe": "value", "child": c.name}
        # ---- enumeration
        if c.typ == "OneOf":
            t.count("constraints")
            own = [str(x) for x in c.params]
            # + tokens other enumerations declare (each accepted there first, see c11.prime)
            for tok in ["NOT_A_TOKEN", str(c.params[0]).lower() if str(c.params[0]).lower() not in c.params else "zz", str(c.params[0]) + "X"] + [x for x in c11.FOREIGN_TOKENS if x not in own]:
                if tok in c.params:
                    continue
                P.must_reject("ctor", f"{c.name}={tok!r}", f"enum:{c.name}", via_ctor, setv(tok), case)
                P.must_reject("tree", f"{c.name}={tok!r}", f"enum:{c.name}", via_tree, settext(tok), case)
            for tok in (c.params[0], c.params[-1]):
                P.must_accept("ctor", f"{c.name}={tok!r}", f"enum:{c.name}", via_ctor, setv(tok), case)
                P.must_accept("tree", f"{c.name}={tok!r}", f"enum:{c.name}", via_tree, settext(str(tok)), case)
        # ---- string length
        if c.typ in ("String", "NagString") and c.params is not None:
            t.count("constraints")
            L = c.params
            at, over = "x" * L, "x" * (L + 1)
            P.must_accept("ctor", f"len({c.name})={L}", f"maxlen:{c.name}", via_ctor, setv(at), case)
            P.must_accept("tree", f"len({c.name})={L}", f"maxlen:{c.name}", via_tree, settext(at), case)
            if c.typ == "String":
                P.must_reject("ctor", f"len({c.name})={L + 1}", f"maxlen:{c.name}", via_ctor, setv(over), case)
                P.must_reject("tree", f"len({c.name})={L + 1}", f"maxlen:{c.name}", via_tree, settext(over), case)
                # white space counts: a value one character too long is too long even if that character is a blank
                for pad, how in ((" ", "trailing blank"), ("\t", "trailing tab")):
                    P.must_reject("ctor", f"len({c.name})={L}+{how}", f"maxlen:{c.name}", via_ctor, setv("x" * L + pad), case)
                    P.must_reject("tree", f"len({c.name})={L}+{how}", f"maxlen:{c.name}", via_tree, settext("x" * L + pad), case)
                P.must_reject("tree", f"len({c.name})={L}+&nbsp;", f"maxlen:{c.name}", via_tree, settext("x" * L + "&nbsp;"), case)
                P.must_reject("ctor", f"len({c.name})={L}+leading blank", f"maxlen:{c.name}", via_ctor, setv(" " + "x" * L), case)
                # the limit counts characters of the value, not of its escaped text
                if L >= 1:
                    esc = "&amp;" * L
                    P.must_accept("tree", f"{c.name} = {L} escaped ampersands", f"maxlen:{c.name}", via_tree, settext(esc), case)
                    P.must_reject("tree", f"{c.name} = {L + 1} escaped ampersands", f"maxlen:{c.name}", via_tree, settext("&amp;" * (L + 1)), case)
            else:
                P.must_accept("ctor", f"len({c.name})={L + 1} (warn-only)", f"maxlen:{c.name}", via_ctor, setv(over), case, expect_warning="OFXTypeWarning")
                P.must_accept("tree", f"len({c.name})={L + 1} (warn-only)", f"maxlen:{c.name}", via_tree, settext(over), case, expect_warning="OFXTypeWarning")
        # ---- integer digits
        if c.typ == "Integer" and c.params is not None:
            t.count("constraints")
            L = c.params
            for v in (10**L - 1, -(10**L - 1)):
                P.must_accept("ctor", f"{c.name}={v}", f"maxdigits:{c.name}", via_ctor, setv(v), case)
                P.must_accept("tree", f"{c.name}={v}", f"maxdigits:{c.name}", via_tree, settext(str(v)), case)
            for v in (10**L, -(10**L), 10 ** (L + 1)):
                P.must_reject("ctor", f"{c.name}={v}", f"maxdigits:{c.name}", via_ctor, setv(v), case)
                P.must_reject("tree", f"{c.name}={v}", f"maxdigits:{c.name}", via_tree, settext(str(v)), case)
        # ---- type: a text that is no value of the type
        if c.typ in ("Bool", "Integer", "Decimal", "DateTime", "Time"):
            t.count("constraints")
            P.must_reject("tree", f"{c.name}='abc'", f"type:{c.name}", via_tree, settext("abc"), case)
            P.must_reject("ctor", f"{c.name}='abc'", f"type:{c.name}", via_ctor, setv("abc"), case)
    # ---- groups
    for kind, groups in (("at-most-one", opt), ("exactly-one", req)):
        for g in groups:
            members = [m for m in g if m in cm and cm[m].kind in ("elem", "sub")]
            if len(members) < 2:
                continue
            t.count("constraints")
            gname = "+".join(g)
            case = {"cls": n, "probe": "group", "group": list(g)}
            base = mn  # MIN holds no member of any at-most-one group and at most one of each exactly-one group
            val = lambda m: U.default_value(cm[m]) if cm[m].kind == "elem" else U.MIN(cm[m].target)
            for i in range(len(members)):
                for j in range(i + 1, len(members)):
                    bad = base
                    for m in members:
                        bad = with_kw(bad, m, None)
                    bad = with_kw(with_kw(bad, members[i], val(members[i])), members[j], val(members[j]))
                    what = f"{members[i]} and {members[j]} both present"
                    P.must_reject("ctor", what, f"{kind}:{gname}", via_ctor, bad, case)
                    P.must_reject("tree", what, f"{kind}:{gname}", via_tree, wire.doc(bad), case)
            # the same keyword NAMES with explicit None for the unused members: a valid build first, then the violating one
            def build_explicit(present):
                name_, kw_, mem_ = base
                kwargs = {k: (U.build(v) if S._isterm(v) else v) for k, v in kw_.items() if k not in members}
                for m in members:
                    kwargs[m] = (U.build(val(m)) if S._isterm(val(m)) else val(m)) if m in present else None
                return cls(*[U.build(x) if S._isterm(x) else x for x in mem_], **kwargs)

            if n not in ("SONRQ", "OFX"):
                P.must_accept("ctor", f"only {members[0]}, the others passed as None", f"{kind}:{gname}", build_explicit, (members[0],), case)
                P.must_reject("ctor", f"{members[0]} and {members[1]} set, same keyword names as a valid call before", f"{kind}:{gname}", build_explicit, (members[0], members[1]), case)
                if kind == "exactly-one":
                    P.must_reject("ctor", "all members passed as None", f"{kind}:{gname}", build_explicit, (), case)
            none = base
            for m in members:
                none = with_kw(none, m, None)
            if kind == "exactly-one":
                P.must_reject("ctor", "no member present", f"{kind}:{gname}", via_ctor, none, case)
                P.must_reject("tree", "no member present", f"{kind}:{gname}", via_tree, wire.doc(none), case)
                # a member given as the empty string is no value (character data converts '' to None)
                for m in members:
                    if cm[m].kind == "elem" and cm[m].typ in ("String", "NagString"):
                        P.must_reject("ctor", f"only {m}, as the empty string", f"{kind}:{gname}", via_ctor, with_kw(none, m, ""), case)
                        # blank data: kept as a value or taken as none - but then the group must notice
                        for blank in (" ", "&nbsp;", "\t", " &nbsp; "):
                            P.whatever_is_built_must_be_valid("ctor", f"only {m}, as {blank!r}", f"{kind}:{gname}", via_ctor, with_kw(none, m, blank), case)
                            P.whatever_is_built_must_be_valid("tree", f"only {m}, as {blank!r}", f"{kind}:{gname}", via_tree, wire.doc(with_kw(none, m, "x"), {(m,): blank}), case)
            else:
                if not any(cm[m].required for m in members):
                    P.must_accept("ctor", "no member present", f"{kind}:{gname}", via_ctor, none, case)
            for m in members:
                one = with_kw(none, m, val(m))
                if n == "SONRQ":
                    continue
                P.must_accept("ctor", f"only {m}", f"{kind}:{gname}", via_ctor, one, case)
                P.must_accept("tree", f"only {m}", f"{kind}:{gname}", via_tree, wire.doc(one), case)
    # ---- class-specific rules (reference: S.custom_problems, written from the specification text the classes quote)
    if n in S.CUSTOM_CLASSES:
        for what, bad in custom_candidates(cls, mn, cm):
            t.count("constraints")
            case = {"cls": n, "probe": "class-rule", "what": what}
            generic = S.term_problems(bad, custom=False)
            special = S.custom_problems(bad[0], bad[1], bad[2])
            if generic:
                raise HarnessError(f"class-rule candidate for {n} ({what}) also breaks a declared constraint: {generic[:2]}")
            if special:
                P.must_reject("ctor", what, "class-rule", via_ctor, bad, case)
                P.must_reject("tree", what, "class-rule", via_tree, wire.doc(bad), case)
            elif n not in ("SONRQ", "OFX"):
                P.must_accept("ctor", what, "class-rule", via_ctor, bad, case)
                P.must_accept("tree", what, "class-rule", via_tree, wire.doc(bad), case)
    # ---- sequence order and duplicates (tree route) on the MAXS document
    sdoc = wire.doc(mx)
    kids = sdoc[1]
    tag2child = {}
    for c in chs:
        if c.kind == "elem":
            tag2child[S.tag_of(c.name)] = c
        elif c.kind == "sub":
            tag2child[c.target.__name__] = c
        elif c.kind == "lagg":
            tag2child[c.target.__name__] = c
        elif c.kind == "lelem":
            tag2child[c.name.upper()] = c
    if n != "TAX1099INT_V100":
        for i in range(len(kids) - 1):
            a, b = tag2child[kids[i][0]], tag2child[kids[i + 1][0]]
            if a.kind in ("lagg", "lelem") and b.kind in ("lagg", "lelem"):
                continue  # repeated children may come in any order among themselves
            t.count("constraints")
            sw = list(kids)
            sw[i], sw[i + 1] = sw[i + 1], sw[i]
            case = {"cls": n, "probe": "swap", "index": i}
            P.must_reject("tree", f"{kids[i + 1][0]} before {kids[i][0]}", f"order:{a.name}<{b.name}", via_tree, (sdoc[0], sw), case)
        for i in range(len(kids)):
            a = tag2child[kids[i][0]]
            if a.kind in ("lagg", "lelem"):
                continue
            t.count("constraints")
            dup = list(kids)
            dup.insert(i + 1, kids[i])
            case = {"cls": n, "probe": "dup", "index": i}
            P.must_reject("tree", f"two {kids[i][0]}", f"once:{a.name}", via_tree, (sdoc[0], dup), case)
            if i + 2 < len(kids) + 0 and i + 1 < len(kids):
                # duplicate separated from the original by the next sibling
                dup2 = list(kids)
                dup2.insert(i + 2, kids[i])
                P.must_reject("tree", f"{kids[i][0]} again after {kids[i + 1][0]}", f"once:{a.name}", via_tree, (sdoc[0], dup2), case)
    # ---- list member types (constructor route)
    t.count("constraints")
    foreign = U.build(U.MIN(U.cls_by_name("OFXELEMENT" if n != "OFXEXTENSION" else "STATUS")))
    lk = [c for c in chs if c.kind == "lagg"]
    le = [c for c in chs if c.kind == "lelem"]
    case = {"cls": n, "probe": "member-type"}
    kwargs = {k: (U.build(v) if S._isterm(v) else v) for k, v in mn[1].items()}
    margs = [U.build(m) if S._isterm(m) else m for m in mn[2]]
    P.must_reject("ctor", "foreign aggregate as list member", "member-type", lambda a: cls(*(margs + [a]), **kwargs), foreign, case)
    if not le:
        P.must_reject("ctor", "string as list member of a class without repeated elements", "member-type", lambda a: cls(*(margs + [a]), **kwargs), "x", case)
        P.must_reject("ctor", "integer as list member", "member-type", lambda a: cls(*(margs + [a]), **kwargs), 5, case)
    # ---- undeclared keyword / list kind passed as keyword
    t.count("constraints")
    P.must_reject("ctor", "undeclared keyword", "undeclared-keyword", lambda a: cls(*margs, **dict(kwargs, nonesuch=a)), "x", {"cls": n, "probe": "kw"})
    for c in lk[:1]:
        P.must_reject("ctor", "list kind as keyword", "undeclared-keyword", lambda a: cls(*margs, **dict(kwargs, **{c.name: a})), U.build(U.MIN(c.target)), {"cls": n, "probe": "kw"})


def subclass_probes(t):
    """an application's subclass of a library model (same name or another) that adds a required, length-limited element:
    its own declarations are enforced, whichever of parent and subclass was used first"""
    from ofxtools import Types
    from ofxtools import models as M

    for pname in ("STATUS", "BAL", "BANKACCTFROM"):
        parent = getattr(M, pname)
        pkw = U.MIN(parent)
        for subname in (pname, "MY" + pname):
            for parent_first in (True, False):
                sub = type(subname, (parent,), {"reason": Types.String(4, required=True), "__module__": "application.models"})
                P = Probe(t, pname)
                case = {"cls": pname, "probe": "application-subclass", "name": subname, "parent_first": parent_first}
                kwargs = {k: (U.build(v) if S._isterm(v) else v) for k, v in pkw[1].items()}
                if parent_first:
                    parent(**kwargs)
                t.count("constraints")
                P.must_reject("ctor", f"{subname}(parent's children only)", "subclass-required", lambda a: sub(**a), dict(kwargs), case)
                P.must_reject("ctor", f"{subname}(reason too long)", "subclass-maxlen", lambda a: sub(**a), dict(kwargs, reason="12345"), case)
                t.count("evaluations")
                try:
                    inst = sub(**dict(kwargs, reason="ok"))
                    if inst.reason != "ok":
                        t.fail(f"C04|{pname}|subclass|ctor|declared-element-not-stored", case, repr(inst))
                    else:
                        t.outcome("accepted-ctor")
                except Exception as e:
                    t.fail(f"C04|{pname}|subclass|ctor|boundary-rejected", case, f"{type(e).__name__}: {str(e)[:150]}")


def work(chunk):
    t = Tally()
    c11.prime()
    for clsname in chunk:
        try:
            class_probes(t, U.cls_by_name(clsname))
        except HarnessError:
            raise
        except Exception as e:
            # a valid helper instance or tree could not be built through the library: that is a boundary case refused
            t.fail(f"C04|{clsname}|valid-construction|refused-{type(e).__name__}", {"cls": clsname, "probe": "crash"}, f"{type(e).__name__}: {str(e)[:200]}")
        t.count("classes")
    return t


def run(ctx):
    classes = S.all_classes()
    names = [c.__name__ for c in classes]
    rot = ctx.seed % len(names)
    tally = ctx.pmap(work, names[rot:] + names[:rot])
    from vf.core import in_fork

    tally.merge(in_fork(lambda: (lambda tt: (subclass_probes(tt), tt)[1])(Tally())))
    if tally.counts.get("constraints", 0) < 4000 or tally.counts.get("classes") != len(names):
        vacuous(tally, f"vacuous: {tally.counts}")
    if not tally.fails:
        for o in ("rejected-ctor", "rejected-tree", "accepted-ctor", "accepted-tree"):
            if o not in tally.outcomes:
                vacuous(tally, f"vacuous: outcome {o} never seen")
    tally.sample({"cls": "STATUS", "constraint": "maxdigits:code", "violating": "code=1000000 and -1000000", "boundary": "code=999999"})
    tally.sample({"cls": "INVBUY", "constraint": "at-most-one:currency+origcurrency", "violating": "both present"})
    tally.sample({"cls": "STPCHKRS", "constraint": "order", "violating": "<STPCHKNUM> after <FEEMSG> in the tree"})
    cov = {
        "evaluations": tally.counts.get("evaluations", 0),
        "distinct_nontrivial": tally.counts.get("violating", 0),
        "rule": "every class x every declared/inherited constraint: required child omitted (MIN and MAXS); each pair of a group present, none of an exactly-one group (also: only an empty or blank string), "
        "each member alone; enumeration foreign tokens (near misses and 8 tokens of other enumerations, accepted there first) and first/last token; string at limit / limit+1 (also counted in escaped ampersands; NagString warns and keeps); "
        "integer +-(10^n-1) / 10^n,-10^n,10^(n+1); non-value text per typed element; every adjacent pair of the MAXS tree swapped (unless both repeated); every "
        "non-repeatable child duplicated (adjacent and one sibling later); foreign aggregate / int / str as list member; subclasses of 3 library classes that add a required, length-limited element (same and other name, parent used first or not); the class-specific rules of 16 classes (one-or-more members, one account-info per service, request / response not mixed, credentials, contribution sources, conditional requirements); undeclared keyword - through the keyword "
        "constructor and through Aggregate.from_etree on a tree built by the harness; distinct_nontrivial = violating variants, evaluations also count boundary variants",
        "constraints": tally.counts.get("constraints", 0),
        "violating_variants": tally.counts.get("violating", 0),
        "boundary_variants": tally.counts.get("boundary", 0),
        "classes": tally.counts.get("classes", 0),
        "exhaustive": True,
    }
    return {"tally": tally, "coverage": cov, "assumptions": [
        "class-specific validate_args rules are exercised only as far as the hint table needs them to build valid baselines",
        "before a class is probed the introspection properties (spec, listaggregates, ...) of all its bases are read, root first",
        "groups naming a repeated child are C13's finding and are skipped here (fewer than two keyword members)",
        "TAX1099INT_V100's order/duplicate probes are skipped (its list position defect is recorded under C13/C01)"]}


def replay(ctx, case):
    t = Tally()
    c11.prime()
    if case.get("probe") == "application-subclass":
        subclass_probes(t)
    else:
        class_probes(t, U.cls_by_name(case["cls"]))
    for sig, (n, c, d) in sorted(t.fails.items()):
        print(" ", sig, "|", d)
    return bool(t.fails)
