"""C01  Serialize-then-parse returns the same model, for every class and wire form.

Space: classes x instance terms within <=k deviations of MIN and MAXS (vf.universe) x 6 wire forms x header versions.
Path: OFXClient(url).serialize(instance, ...) -> bytes -> OFXTree().parse(BytesIO(bytes)).convert().
Oracle: vf.ref_schema deep comparison (+ independent validation of the result).
"""
import io
import warnings

from vf import ref_schema as S
from vf import universe as U
from vf.core import disturb_process
from vf.core import disturb_class
from vf.core import vacuous, HarnessError, Tally

LEVEL = "exploration"

FORMS = [
    ("v2-xml", 2, False, True),
    ("v2-xml-pretty", 2, True, True),
    ("v1-closed", 1, False, True),
    ("v1-closed-pretty", 1, True, True),
    ("v1-unclosed", 1, False, False),
    ("v1-unclosed-pretty", 1, True, False),
]
V1 = [102, 103, 151, 160]
V2 = [200, 201, 202, 203, 210, 211, 220]


def client():
    from ofxtools.Client import OFXClient

    return OFXClient("http://localhost/ofx")


def term_from_json(x):
    name, kw, members = x
    return (name, {k: (term_from_json(v) if isinstance(v, list) and len(v) == 3 and isinstance(v[1], dict) else v) for k, v in kw.items()},
            [term_from_json(m) if isinstance(m, list) and len(m) == 3 and isinstance(m[1], dict) else m for m in members])


def roundtrip(cl, inst, version, pretty, close):
    from ofxtools.Parser import OFXTree

    data = cl.serialize(inst, version=version, prettyprint=pretty, close_elements=close)
    tree = OFXTree()
    tree.parse(io.BytesIO(data))
    return data, tree.convert()


def empty_aggregates(term, out=None):
    """names of aggregates in the term that have neither children nor members"""
    out = set() if out is None else out
    name, kw, members = term
    if not kw and not members:
        out.add(name)
    for v in kw.values():
        if S._isterm(v):
            empty_aggregates(v, out)
    for m in members:
        if S._isterm(m):
            empty_aggregates(m, out)
    return out


def unclosed_empty_aggregate(data, term):
    """Is this failure of an end-tag-less rendering explained by the known writer defect (an empty aggregate is
    written as a bare start tag)?  Decided on the library's own bytes with the strict reference reader: the body is
    not well-formed and an empty aggregate of the term is written '<NAME>' without '</NAME>'."""
    from vf import ref_sgml

    empties = empty_aggregates(term)
    if not empties:
        return False
    text = data.decode("utf_8", "replace")
    i = text.find("<OFX>") if "<OFX>" in text else text.find("<", text.find("NEWFILEUID"))
    body = text[text.find("<", text.find("NEWFILEUID:")):] if "NEWFILEUID:" in text else text
    try:
        ref_sgml.build(body)
        return False  # well-formed: the failure has another cause
    except ref_sgml.RefSyntaxError:
        pass
    return any(f"<{n}>" in body and f"</{n}>" not in body for n in empties)


def check_instance(t, cl, term, inst, origterm, forms, versions_for, labels):
    cname = term[0]
    for fname, major, pretty, close in forms:
        for version in versions_for(major):
            t.count("evaluations")
            case = {"term": term, "form": fname, "version": version, "labels": list(labels)}
            stage = "serialize"
            try:
                with warnings.catch_warnings(record=True) as w:
                    warnings.simplefilter("always")
                    data = cl.serialize(inst, version=version, prettyprint=pretty, close_elements=close)
                    stage = "parse"
                    from ofxtools.Parser import OFXTree

                    tree = OFXTree()
                    tree.parse(io.BytesIO(data))
                    stage = "convert"
                    back = tree.convert()
                unknown = [str(x.message) for x in w if "nknown" in str(x.message)]
            except Exception as e:
                if not close and stage != "serialize" and unclosed_empty_aggregate(data, term):
                    t.fail(f"C01|{fname}|empty-aggregate-written-without-end-tag", case, f"{cname} {labels}: {type(e).__name__}: {str(e)[:200]}")
                    continue
                # an "out of order" refusal names the class whose definition is at fault: key the failure by that class
                # (it may sit below the root), so that the same defect has the same signature wherever it is nested
                import re as _re

                m = _re.search(r"class spec for (\w+)", str(e))
                where = m.group(1) if m else cname
                t.fail(f"C01|{fname}|{where}|{stage}-raises-{type(e).__name__}", case, f"{cname} {labels}: {type(e).__name__}: {str(e)[:300]}")
                continue
            d = S.diff_terms(origterm, S.inst_to_term(back))
            if d:
                if not close and unclosed_empty_aggregate(data, term):
                    t.fail(f"C01|{fname}|empty-aggregate-written-without-end-tag", case, f"{cname} {labels}: {d}")
                    continue
                t.fail(f"C01|{fname}|{cname}|differs", case, f"{labels}: {d}")
                continue
            if unknown:
                t.fail(f"C01|{fname}|{cname}|own-output-has-unknown-tag", case, unknown[0])
                continue
            probs = S.validate(back)
            if probs:
                t.fail(f"C01|{fname}|{cname}|result-invalid", case, probs[0])
                continue
            t.outcome("ok-" + fname)


def edit_and_recheck(t, cl, cls, term, inst, vf):
    """the instance was just written once; edit it through public attribute assignment (an element of a nested
    sub-aggregate, an element of its own, a further list member) and write it again: the file must say what the
    instance holds NOW"""
    edits = []
    chs = S.children(cls)
    for c in chs:
        if c.kind == "sub" and vars(inst).get(c.name) is not None:
            sub = vars(inst)[c.name]
            for cc in S.children(type(sub)):
                if cc.kind == "elem" and vars(sub).get(cc.name) is not None and len(U.alphabet(cc)) > 1:
                    alt = next(v for v in U.alphabet(cc) if S.norm_value(v) != S.norm_value(vars(sub)[cc.name]))
                    edits.append((f"{c.name}.{cc.name}={alt!r}", lambda sub=sub, cc=cc, alt=alt: setattr(sub, cc.name, alt)))
                    break
            if edits:
                break
    for c in chs:
        if c.kind == "elem" and vars(inst).get(c.name) is not None and len(U.alphabet(c)) > 1:
            alt = next(v for v in U.alphabet(c) if S.norm_value(v) != S.norm_value(vars(inst)[c.name]))
            edits.append((f"{c.name}={alt!r}", lambda c=c, alt=alt: setattr(inst, c.name, alt)))
            break
    lk = [c for c in chs if c.kind == "lagg"]
    if lk and not U.hint(cls).get("one_per_kind"):
        m = U.build(U.member_default(lk[0], 2))
        edits.append((f"append {lk[0].name}", lambda m=m: inst.append(m)))
    for label, fn in edits:
        try:
            fn()
        except Exception:
            continue
        now = S.inst_to_term(inst)
        t.count("instances")
        t.count("nontrivial-instances")
        t.count("edited-instances")
        check_instance(t, cl, now, inst, now, FORMS, vf, ("written-once-then-edited:" + label,))


def work(chunk):
    t = Tally()
    disturb_process()
    cl = client()
    for clsname, basekind, k, substates, allversions, rot in chunk:
        cls = U.cls_by_name(clsname)
        base = {"MIN": U.MIN, "MAXS": U.MAXS, "MAXD": U.MAXD}[basekind](cls)
        n = 0
        for labels, term in U.enumerate_deviations(cls, base, k, substates):
            try:
                with warnings.catch_warnings():
                    warnings.simplefilter("ignore")
                    inst = U.build(term)
            except Exception as e:
                if not labels:
                    t.fail(f"C01|baseline|{clsname}|{basekind}-cannot-construct", {"term": term, "form": None, "version": None, "labels": []}, f"{type(e).__name__}: {e}")
                elif not S.term_problems(term):
                    # a variation the reference finds valid (presence, groups, member kinds, class-specific rules) is refused
                    t.fail(f"C01|{clsname}|valid-instance-refused-{type(e).__name__}", {"term": term, "form": None, "version": None, "labels": list(labels)}, f"{type(e).__name__}: {str(e)[:200]} (variation {list(labels)})")
                t.count("refused-by-constructor")
                continue
            origterm = S.inst_to_term(inst)
            t.count("instances")
            if labels:
                t.count("nontrivial-instances")
            n += 1
            if not labels and allversions:
                vf = lambda major: V1 if major == 1 else V2
            else:
                vf = lambda major, n=n: [V1[(n + rot) % len(V1)]] if major == 1 else [V2[(n + rot) % len(V2)]]
            check_instance(t, cl, term, inst, origterm, FORMS, vf, labels)
            if not labels and basekind == "MAXS":
                edit_and_recheck(t, cl, cls, term, inst, vf)
            if not labels:
                # the baseline went through a class nothing had been refused by; its variations follow refused
                # constructions / conversions and a look at the base classes
                disturb_class(cls)
        t.count("class-baselines")
    return t


def run(ctx):
    classes = S.all_classes()
    jobs = []
    for c in classes:
        if ctx.quick:
            jobs.append((c.__name__, "MIN", 1, ("MIN",), True, ctx.seed))
            jobs.append((c.__name__, "MAXS", 1, ("MIN",), True, ctx.seed))
        else:
            jobs.append((c.__name__, "MIN", 2, ("MIN", "MAXS"), True, ctx.seed))
            jobs.append((c.__name__, "MAXS", 1, ("MIN", "MAXS"), True, ctx.seed))
            jobs.append((c.__name__, "MAXD", 0, ("MIN",), True, ctx.seed))
    # big classes first for balance
    jobs.sort(key=lambda j: -len(S.children(U.cls_by_name(j[0]))))
    tally = ctx.pmap(work, jobs, chunk=1)
    if tally.counts.get("instances", 0) < 10000 or tally.counts.get("class-baselines", 0) < 2 * len(classes):
        vacuous(tally, f"vacuous: {tally.counts}")
    if not tally.fails:
        for f in FORMS:
            if "ok-" + f[0] not in tally.outcomes:
                raise HarnessError(f"wire form {f[0]} never round-tripped")
    ex = U.MIN(U.cls_by_name("STMTTRN"))
    tally.sample({"term": ex, "forms": [f[0] for f in FORMS]})
    cov = {
        "evaluations": tally.counts.get("evaluations", 0),
        "distinct_nontrivial": tally.counts.get("nontrivial-instances", 0),
        "rule": f"{len(classes)} concrete classes x baselines " + ("MIN, MAXS with every instance within <=1 deviation" if ctx.quick else
        "MIN within <=2 deviations, MAXS within <=1 (sub-aggregates also switched to their MAXS), MAXD") +
        " (deviation dimensions: each element over its value alphabet or absent, each sub-aggregate present/absent, each at-most-one/exactly-one group switched, "
        "each repeated kind with 0/1/2/3 distinguishable members, member order reversed/rotated) x 6 wire forms; header version rotating per instance, all 11 "
        "versions on the baselines; every MAXS instance is also edited after having been written (nested element, own element, appended list member) and written again; distinct_nontrivial = distinct deviated instances the constructor accepted (baselines not counted); evaluations = round trips",
        "instances": tally.counts.get("instances", 0),
        "refused_by_constructor": tally.counts.get("refused-by-constructor", 0),
        "classes": len(classes),
        "exhaustive": True,
        "distinct_outcomes": len(tally.outcomes),
    }
    return {"tally": tally, "coverage": cov, "assumptions": [
        "string values from an 8-value alphabet incl. & < > quotes, non-ASCII, inner blanks, an entity-spelling value; no leading/trailing blank, never empty",
        "decimals with exponent <= 0 only (positive exponents and special values belong to C11)",
        "deviations are applied at the root class; nesting deeper than MAXD relies on every class also being explored as a root"]}


def replay(ctx, case):
    t = Tally()
    cl = client()
    term = term_from_json(case["term"])
    inst = U.build(term)
    forms = [f for f in FORMS if f[0] == case["form"]] or FORMS
    v = case.get("version")
    check_instance(t, cl, term, inst, S.inst_to_term(inst), forms, (lambda major: [v]) if v else (lambda major: [102] if major == 1 else [203]), tuple(case.get("labels", [])))
    for sig, (n, c, d) in sorted(t.fails.items()):
        print(" ", sig, "|", d)
        f = forms[0]
        try:
            print(cl.serialize(inst, version=v or (102 if f[1] == 1 else 203), prettyprint=f[2], close_elements=f[3]).decode()[:1500])
        except Exception as e:
            print("serialize raises", e)
    return bool(t.fails)
