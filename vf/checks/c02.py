"""C02  All wire renderings of one OFX body parse to the same, faithful element tree.

Space: all ordered trees with <= N nodes over a 3-name tag alphabet, every leaf an empty aggregate or a
data element with data from a 7-value alphabet, x rendering choices (end tag omitted, CDATA wrapping,
white space in every gap), deviation-bounded from the canonical rendering.
Oracle: TreeBuilder().feed(text); close() == generating term.  ref_sgml reads every text too
(self-check of generator and reference: disagreement there is a harness error, not a verdict).
"""
import contextlib
import itertools

from vf import ref_sgml
from vf.checks import c06
from vf.core import vacuous, HarnessError, Tally, deviations

LEVEL = "exploration"

TAGS = ["A", "B1", "C.D_E"]
DATA = ["x", "a b", "&amp;", "p>q", "é", "a\nb", "]]y"]


def leaves_options():
    return [[]] + DATA  # [] = empty aggregate


def forests(n):
    """all ordered forests with exactly n nodes"""
    if n == 0:
        yield []
        return
    for first in range(1, n + 1):
        for t in trees_exact(first):
            for rest in forests(n - first):
                yield [t] + rest


_cache = {}


def trees_exact(n):
    if n in _cache:
        return _cache[n]
    out = []
    if n == 1:
        for tag in TAGS:
            out.append((tag, []))
            for d in DATA:
                out.append((tag, d))
    else:
        for tag in TAGS:
            for f in forests(n - 1):
                out.append((tag, f))
    _cache[n] = out
    return out


def all_trees(nmax, max_nondefault_leaves=None):
    """root is always an aggregate (a message body's root holds no data)"""
    for n in range(1, nmax + 1):
        for t in trees_exact(n):
            if isinstance(t[1], str):
                continue
            if max_nondefault_leaves is not None and _nondefault(t) > max_nondefault_leaves:
                continue
            yield t


def _nondefault(t):
    tag, body = t
    if isinstance(body, str):
        return 0 if body == "x" else 1
    return sum(_nondefault(c) for c in body)


def rendering_space(term):
    toks, nleaves = ref_sgml.tokens(term)
    leafdata = {}
    for k, v, leaf in toks:
        if k == "D":
            leafdata[leaf] = v
    dims = []
    for leaf in range(nleaves):
        omit = ref_sgml.can_omit(toks, leaf)
        opts = [(False, False)] + ([(True, False)] if omit else [])
        if ref_sgml.can_cdata(leafdata[leaf]):
            opts += [(False, True)] + ([(True, True)] if omit else [])
        dims.append(opts)
    for _ in range(len(toks) + 1):
        dims.append([0, 1, 2, 3])
    return dims, nleaves, len(toks)


def lib_parse(text):
    from ofxtools.Parser import TreeBuilder

    tb = TreeBuilder()
    tb.feed(text)
    return tb.close()


def check_one(term, leafopts, gaps):
    """returns None or (signature, detail)"""
    text = ref_sgml.render(term, leafopts, gaps)
    try:
        ref = ref_sgml.build(text)
    except ref_sgml.RefSyntaxError as e:
        raise HarnessError(f"reference rejects its own rendering {text!r}: {e}")
    if ref != term:
        raise HarnessError(f"reference disagrees with generator on {text!r}: {ref!r} != {term!r}")
    try:
        root = lib_parse(text)
        got = ref_sgml.et_to_term(root) if root is not None else None
    except Exception as e:  # any refusal of a well-formed body is a failure of C02
        return _sig(term, leafopts, gaps, text, "raises-" + type(e).__name__), f"{type(e).__name__}: {e} on {text!r}"
    if got != term:
        return _sig(term, leafopts, gaps, text, "wrong-tree"), f"{text!r} -> {got!r}, expected {term!r}"
    return None


def _sig(term, leafopts, gaps, text, kind):
    """signature: failure kind + the rendering features involved (CDATA? line break in data? several
    CDATA sections?) - narrow enough that a failure on plain text renderings is a different one."""
    ncd = sum(1 for (o, c) in leafopts.values() if c)
    toks, _ = ref_sgml.tokens(term)
    data_nl = any(k == "D" and ("\n" in v) and leafopts.get(leaf, (0, 0))[1] for k, v, leaf in toks)
    feats = []
    if ncd == 0:
        feats.append("no-cdata")
    elif ncd == 1:
        feats.append("one-cdata")
    else:
        feats.append("multi-cdata")
    if data_nl:
        feats.append("linebreak-in-cdata")
    return "C02|" + "+".join(feats) + "|" + kind


def point_to_choices(dims, nleaves, ntoks, point):
    leafopts = {}
    for leaf in range(nleaves):
        o = dims[leaf][point[leaf]]
        if o != (False, False):
            leafopts[leaf] = o
    gaps = [dims[nleaves + i][point[nleaves + i]] for i in range(ntoks + 1)]
    return leafopts, gaps


REFUSED = ["<A><B1>x</B1>", "<A></B1>", "<A><B1></A></B1>", "<A>x</A>junk"]


def reuse_tree_phase(t, term):
    """three renderings of one term read one after another through ONE OFXTree object (v2 header + body)"""
    import io

    from ofxtools.Parser import OFXTree

    from vf import ref_header as H

    toks, nleaves = ref_sgml.tokens(term)
    head = H.render_v2(H.v2_fields(203))
    tree = OFXTree()
    for which, (lo, gap) in enumerate((({}, 0), ({leaf: (True, False) for leaf in range(nleaves) if ref_sgml.can_omit(toks, leaf)}, 2), ({}, 3))):
        text = ref_sgml.render(term, lo, [gap] * (len(toks) + 1))
        t.count("evaluations")
        try:
            root = tree.parse(io.BytesIO((head + text).encode("utf_8")))
            got = ref_sgml.et_to_term(root)
        except Exception as e:
            t.fail(f"C02|reused-OFXTree|parse-{which + 1}|raises-{type(e).__name__}", {"term": term, "leafopts": sorted(lo.items()), "gaps": [gap] * (len(toks) + 1)}, f"{type(e).__name__}: {e} on rendering #{which + 1} {text!r}")
            return
        if got != term:
            t.fail(f"C02|reused-OFXTree|parse-{which + 1}|wrong-tree", {"term": term, "leafopts": sorted(lo.items()), "gaps": [gap] * (len(toks) + 1)}, f"{text!r} -> {got!r}")
            return
    t.outcome("reused-tree-ok")


FILE_DATA = {"a\nb": ["a\n\nb", "a\r\n \t\r\nb"], "\u00e9": ["\u20ac \u2019q\u201d \u2122"]}  # + Windows-1252-only characters  # + data holding an empty / blank line (file phase only)


def _variants(term):
    """the term, and the term with each line-break data value replaced by one holding a blank line"""
    yield term
    tag, body = term
    if isinstance(body, str):
        for alt in FILE_DATA.get(body, []):
            yield (tag, alt)
        return
    for i, ch in enumerate(body):
        for v in list(_variants(ch))[1:]:
            yield (tag, body[:i] + [v] + body[i + 1 :])


def file_phase(chunk):
    """the same bodies as whole files through OFXTree.parse(): v1 and v2 headers, each in the standard layout and in the
    tightest one the library tolerates (no line breaks at all / CR only), body in the XML and the SGML rendering"""
    import io

    from ofxtools.Parser import OFXTree

    from vf import ref_header as H

    t = Tally()
    f1 = H.v1_fields(102, encoding="UTF-8", charset="NONE")
    f2 = H.v2_fields(203)
    heads = [("v1-standard", H.render_v1(f1), "utf_8"), ("v1-one-line", H.render_v1(f1, seps=[""] * 8, gap=""), "utf_8"), ("v1-cr-only", H.render_v1(f1, seps=["\r"] * 8, gap="\r"), "utf_8"),
             ("v2-standard", H.render_v2(f2), "utf_8"), ("v2-one-line", H.render_v2(f2, br1="", br2=""), "utf_8"),
             ("v1-windows-1252", H.render_v1(H.v1_fields(102, encoding="USASCII", charset="1252")), "cp1252"), ("v1-latin-1", H.render_v1(H.v1_fields(102, encoding="USASCII", charset="ISO-8859-1")), "latin_1")]
    for base in chunk:
        for term in _variants(base):
            toks, nleaves = ref_sgml.tokens(term)
            for lo in ({}, {leaf: (True, False) for leaf in range(nleaves) if ref_sgml.can_omit(toks, leaf)}):
                text = ref_sgml.render(term, lo, None)
                if ref_sgml.build(text) != term:
                    raise HarnessError(f"reference does not read back {text!r}")
                for (hname, head, codec), loud in itertools.product(heads, (False, True)):
                    try:
                        data = (head + text).encode(codec)
                    except UnicodeEncodeError:
                        continue
                    if loud and "standard" in hname:
                        continue  # with the library's loggers at DEBUG: the tight layouts and the two 8-bit charsets
                    t.count("evaluations")
                    t.count("files")
                    case = {"term": term, "leafopts": sorted(lo.items()), "gaps": None, "head": hname, "logging": "DEBUG" if loud else None}
                    if loud:
                        hname += "+logging-at-DEBUG"
                    try:
                        tree = OFXTree()
                        with (c06.verbose_logging({"loglevel": "DEBUG"}) if loud else contextlib.nullcontext()):
                            got = ref_sgml.et_to_term(tree.parse(io.BytesIO(data)))
                        # the header object handed back is the caller's (e.g. to write the file out again under another
                        # charset): editing it must not reach any later parse
                        for attr, val in (("charset", "1252" if getattr(tree.header, "charset", None) != "1252" else "NONE"), ("version", 103 if hname.startswith("v1") else 220), ("newfileuid", "EDITED")):
                            if hasattr(tree.header, attr):
                                setattr(tree.header, attr, val)
                    except Exception as e:
                        t.fail(f"C02|file|{hname}|raises-{type(e).__name__}", case, f"{type(e).__name__}: {e} on {head[-30:] + text!r}")
                        continue
                    if got != term:
                        t.fail(f"C02|file|{hname}|wrong-tree", case, f"{head[-30:] + text!r} -> {got!r}, expected {term!r}")
                    else:
                        t.outcome("file-ok")
    return t


def work(chunk):
    t = Tally()
    for n, (term, k) in enumerate(chunk):
        if n % 10 == 0:
            reuse_tree_phase(t, term)
        if n % 25 == 0:
            # the property holds whatever was parsed before - in particular after a document that was refused
            for bad in REFUSED:
                try:
                    lib_parse(bad)
                except Exception:
                    pass
        dims, nleaves, ntoks = rendering_space(term)
        for point in deviations(dims, k):
            leafopts, gaps = point_to_choices(dims, nleaves, ntoks, point)
            t.count("evaluations")
            if any(point):
                t.count("nontrivial")
            r = check_one(term, leafopts, gaps)
            if r:
                sig, detail = r
                t.fail(sig, {"term": term, "leafopts": sorted(leafopts.items()), "gaps": gaps}, detail)
                t.outcome("fail:" + sig)
            else:
                t.outcome("ok")
        t.count("terms")
    return t


def run(ctx):
    ref_sgml.selfcheck()
    if ctx.quick:
        plan = [(3, None, 2), (4, None, 1)]
    else:
        plan = [(4, None, 2), (5, 0, 2), (5, 1, 1), (3, None, 3)]
    items = []
    seen = set()
    for nmax, maxnd, k in plan:
        for term in all_trees(nmax, maxnd):
            key = (repr(term), k)
            if (repr(term), "ge", k) in seen:
                continue
            items.append((term, k))
    # drop (term,k) dominated by (term,k') with k' >= k
    best = {}
    for term, k in items:
        r = repr(term)
        if r not in best or best[r][1] < k:
            best[r] = (term, k)
    items = sorted(best.values(), key=lambda tk: (len(repr(tk[0])), repr(tk[0])))
    # interleave sizes so chunks are balanced
    rot = ctx.seed % max(1, len(items))
    items = items[rot:] + items[:rot]
    tally = ctx.pmap(work, items, chunk=max(1, len(items) // (ctx.workers * 8)))
    tally.merge(ctx.pmap(file_phase, list(all_trees(3 if ctx.quick else 4, None if ctx.quick else 2))))
    if tally.counts.get("terms", 0) < 1000:
        vacuous(tally, "vacuous: fewer than 1000 terms enumerated")
    sample_term = ("A", [("B1", "a b"), ("C.D_E", [])])
    tally.sample({"term": sample_term, "text": ref_sgml.render(sample_term, {0: (True, False)}, [0, 2, 0, 0, 0, 3, 0, 0])})
    cov = {
        "evaluations": tally.counts.get("evaluations", 0),
        "distinct_nontrivial": tally.counts.get("nontrivial", 0),
        "rule": "every ordered tree with <=N nodes over tags {A,B1,C.D_E}, leaves empty aggregate or data in "
        "{x,'a b',&amp;,p>q,e-acute,'a\\nb',']]y'} (root an aggregate); per tree every rendering within <=k "
        "deviations from the canonical one (dimensions: per data leaf end-tag omitted / CDATA / both; per token "
        "gap one of '',' ','\\n','\\r\\n\\t  '); plan (N, max non-'x' leaves, k) = " + repr(plan) + "; each rendering is "
        "distinct text; non-trivial = at least one rendering deviation",
        "terms": tally.counts.get("terms", 0),
        "plan": [list(p) for p in plan],
        "exhaustive": True,
        "distinct_outcomes": len(tally.outcomes),
    }
    return {
        "tally": tally,
        "coverage": cov,
        "assumptions": [
            "tag alphabet of three names stands for all names over [A-Z0-9._]; data alphabet of seven values",
            "white space adjacent to a CDATA section inside its own element is not in the rendering alphabet",
            "every 10th tree is also read in three renderings through one re-used OFXTree object (v2 header + body)",
            "every 25th tree is preceded by four malformed bodies (their refusal is C08's business; here they only precede the well-formed ones)",
            "root of a body is an aggregate",
            "every tree of <=3 nodes (thorough: <=4 with <=2 non-default leaves), also with data holding a blank line, is read as a whole file through OFXTree.parse() under 7 headers (5 layouts; Windows-1252 and Latin-1 bodies) x 2 renderings",
        ],
    }


def replay(ctx, case):
    term = _tup(case["term"])
    if case.get("head"):
        t = file_phase([term])
        for sig, (n, c, d) in sorted(t.fails.items()):
            if c.get("head") == case["head"]:
                print(" ", sig, "|", d)
        return any(c.get("head") == case["head"] for (n, c, d) in t.fails.values())
    leafopts = {int(k): tuple(v) for k, v in case["leafopts"]}
    gaps = case["gaps"]
    text = ref_sgml.render(term, leafopts, gaps)
    print(" text      :", repr(text))
    print(" expected  :", term)
    try:
        root = lib_parse(text)
        print(" library   :", ref_sgml.et_to_term(root) if root is not None else None)
    except Exception as e:
        print(" library raises:", type(e).__name__, e)
    return check_one(term, leafopts, gaps) is not None


def _tup(x):
    tag, body = x
    if isinstance(body, str):
        return (tag, body)
    return (tag, [_tup(c) for c in body])
