"""C05  The header parser hands over exactly the body, decoded as the header declares.

Space: v1 field values x layout (separator per field boundary, blanks after the colon, leading blank lines,
header/body gap) x body (ASCII / e-acute / cp1252-only / C1 control (latin-1 only) / UTF-8 multi-byte) where encodable in the
declared charset; v2: quotes x standalone x breaks x leading blank line x UTF-8 body.
Oracle: ref_header fields; returned text stripped == body; OFXTree.parse of the same bytes == ref_sgml tree.
"""
import io
import itertools

from vf import ref_header as H
from vf import ref_sgml
from vf.core import vacuous, HarnessError, Tally, deviations

LEVEL = "exploration"

BODIES = {
    "ascii": "<OFX><A>x</A><B><C>a b</C></B></OFX>",
    "eacute": "<OFX><A>café</A><B><C>é</C></B></OFX>",
    "cp1252": "<OFX><A>€ “q”</A><B><C>…</C></B></OFX>",
    "c1": "<OFX><A>a\u0085bé</A><B><C>x</C></B></OFX>",
    "utf8": "<OFX><A>漢字 € \U0001F4B0</A><B><C>é</C></B></OFX>",
    # text whose single-byte encoding happens to be valid UTF-8: only the declared CHARSET says which it is
    "looks-like-utf8": "<OFX><A>CAF\u00c3\u00a9 \u00c2\u00a35</A><B><C>\u00c3\u00bc</C></B></OFX>",
    "multiline": "<OFX>\r\n<A>x\r\n<B>\r\n<C>café\r\n</B>\r\n</OFX>",
}
# bodies longer than any read-ahead / block size a reader might use (4 KiB ... 128 KiB), multi-byte characters at every
# alignment: 2-, 3- and 4-byte UTF-8 sequences in a 9-byte period, shifted by 0..3 ASCII characters
for _k in range(4):
    BODIES[f"long-utf8-{_k}"] = "<OFX><A>" + "x" * _k + "\u00e9\u20ac\U0001F4B0" * 16000 + "</A><B><C>z</C></B></OFX>"
BODIES["long-latin"] = "<OFX><A>" + "caf\u00e9 " * 30000 + "</A><B><C>z</C></B></OFX>"
LONG = [b for b in BODIES if b.startswith("long-")]
SEPS = ["\r\n", "\n", "\r", ""]
GAPS = ["\r\n\r\n", "", "\n", "\r\n", "\r", "\r\n\r\n\r\n"]
LEADS = ["", "\r\n", "\n\n", "\r", "\r\r"]


def encodable(body, charset):
    try:
        BODIES[body].encode(H.CODECS[charset])
        return True
    except UnicodeEncodeError:
        return False


def lib():
    from ofxtools import header
    from ofxtools.Parser import OFXTree

    return header, OFXTree


def layout_class(seps, gap, lead):
    s = set(seps)
    if s == {""}:
        sc = "one-line"
    elif s <= {"\r"}:
        sc = "cr-only"
    elif "" in s or "\r" in s:
        sc = "mixed-short"
    else:
        sc = "line-per-field"
    g = {"": "glued", "\r": "cr-gap"}.get(gap, "lf-gap")
    return sc + "+" + g


def v1_case(t, hd, OFXTree, params):
    if len(params) == 13:
        # the same file with the library's loggers at DEBUG (a formatting handler attached): what is handed over must not
        # depend on the logging configuration
        from vf.checks import c06

        with c06.verbose_logging({"loglevel": "DEBUG"}):
            return v1_case(t, hd, OFXTree, params[:12])
    version, security, encoding, charset, compression, old, new, seps, blanks, lead, gap, bodyname = params
    t.count("evaluations")
    fields = H.v1_fields(version, security, encoding, charset, "NONE", old, new)
    omit = () if compression else ("COMPRESSION",)
    text = H.render_v1(fields, seps=list(seps), blanks=blanks, leading=lead, gap=gap, omit=omit)
    body = BODIES[bodyname]
    data = text.encode("ascii") + body.encode(H.CODECS[charset])
    case = {"v": 1, "params": list(params)}
    nonascii = bodyname not in ("ascii",)
    lc = layout_class(seps, gap, lead)
    sig0 = f"C05|v1|{lc}|{'non-ascii-body' if nonascii else 'ascii-body'}"
    try:
        h, msg = hd.parse_header(io.BytesIO(data))
    except Exception as e:
        t.fail(f"{sig0}|raises-{type(e).__name__}", case, f"{data[:200]!r}...: {type(e).__name__}: {e}")
        return
    exp = dict(fields)
    if not compression:
        exp["COMPRESSION"] = "NONE"
    got = H.header_obj_fields(h)
    if got != exp:
        t.fail(f"{sig0}|fields-differ", case, f"{got} expected {exp}")
        return
    if msg.strip() != body:
        kind = "body-lost-first-char" if msg.strip() == body[1:] else "body-differs"
        t.fail(f"{sig0}|{kind}", case, f"{data[:160]!r}... -> body {msg[:60]!r}...")
        return
    if h.codec != H.CODECS[charset]:
        t.fail(f"{sig0}|codec-differs", case, f"{h.codec}")
        return
    t.outcome("v1-ok-" + lc)
    t.outcome("body-" + bodyname + "-" + charset)


def reparse_after_edit(t, hd):
    """a returned header object is the caller's: editing it (to re-export the file under another version, charset, UID)
    must not change what the next parse of the same bytes - or of another file with equal fields - returns"""
    import io as _io

    for v in (1, 2):
        for bodyname, charset in (("cp1252", "1252"), ("eacute", "ISO-8859-1"), ("utf8", "NONE")):
            t.count("evaluations")
            body = BODIES[bodyname]
            if v == 1:
                fields = H.v1_fields(102, "NONE", "USASCII", charset, "NONE", "NONE", "uid-1")
                data = H.render_v1(fields).encode("ascii") + body.encode(H.CODECS[charset])
            else:
                fields = H.v2_fields(203, "NONE", "NONE", "uid-1")
                data = (H.render_v2(fields) + BODIES["utf8"]).encode("utf_8")
                body = BODIES["utf8"]
            case = {"v": v, "params": ["reparse-after-edit", bodyname, charset]}
            sig0 = f"C05|v{v}|reparse-after-editing-the-returned-header"
            try:
                h1, _ = hd.parse_header(_io.BytesIO(data))
                for attr, val in (("version", 103 if v == 1 else 220), ("newfileuid", "EDITED"), ("oldfileuid", "EDITED"), ("security", "TYPE1"), ("charset", "NONE" if charset != "NONE" else "1252")):
                    if hasattr(h1, attr):
                        try:
                            setattr(h1, attr, val)
                        except Exception:
                            pass
                h2, msg = hd.parse_header(_io.BytesIO(data))
            except Exception as e:
                t.fail(f"{sig0}|raises-{type(e).__name__}", case, f"{type(e).__name__}: {e}")
                continue
            got = H.header_obj_fields(h2)
            if got != fields:
                t.fail(f"{sig0}|fields-differ", case, f"{got} expected {fields}")
            elif msg.strip() != body:
                t.fail(f"{sig0}|body-differs", case, f"{msg[:60]!r}")
            elif h2 is h1:
                t.fail(f"{sig0}|same-object-returned-twice", case, "")
            else:
                t.outcome("reparse-ok")


def refused_files(hd):
    """files whose body cannot be decoded with the declared charset (refused on the pinned tree): fed before the valid
    ones - what a valid file decodes to must not depend on an earlier, broken one"""
    import io as _io

    for cs, raw in (("NONE", "é€".encode("cp1252")), ("NONE", b"\xff\xfe<OFX></OFX>"), ("1252", b"<OFX>\x81\x8d</OFX>")):
        text = H.render_v1(H.v1_fields(102, charset=cs))
        try:
            hd.parse_header(_io.BytesIO(text.encode("ascii") + b"<OFX><A>" + raw + b"</A></OFX>"))
        except Exception:
            pass


def v1_work(chunk):
    hd, OFXTree = lib()
    t = Tally()
    refused_files(hd)
    for params in chunk:
        v1_case(t, hd, OFXTree, params)
    return t


def v2_case(t, hd, OFXTree, params):
    if len(params) == 12:
        from vf.checks import c06

        with c06.verbose_logging({"loglevel": "DEBUG"}):
            return v2_case(t, hd, OFXTree, params[:11])
    version, security, old, new, quote, standalone, encattr, br1, br2, lead, bodyname = params
    t.count("evaluations")
    fields = H.v2_fields(version, security, old, new)
    text = H.render_v2(fields, quote=quote, standalone=standalone, br1=br1, br2=br2, leading=lead, encoding_attr=encattr)
    body = BODIES[bodyname]
    data = (text + body).encode("utf_8")
    case = {"v": 2, "params": list(params)}
    lc = ("one-line" if br1 == "" and br2 == "" else "glued-body" if br2 == "" else "glued-decls" if br1 == "" else "lines") + ("+lead" if lead else "")
    sig0 = f"C05|v2|{lc}|{'ascii-body' if bodyname == 'ascii' else 'non-ascii-body'}"
    try:
        h, msg = hd.parse_header(io.BytesIO(data))
    except Exception as e:
        t.fail(f"{sig0}|raises-{type(e).__name__}", case, f"{data[:200]!r}...: {type(e).__name__}: {e}")
        return
    got = H.header_obj_fields(h)
    if got != fields:
        t.fail(f"{sig0}|fields-differ", case, f"{got} expected {fields}")
        return
    if msg.strip() != body:
        t.fail(f"{sig0}|body-differs", case, f"{data[:160]!r}... -> {msg[:60]!r}")
        return
    t.outcome("v2-ok-" + lc)


def v2_work(chunk):
    hd, OFXTree = lib()
    t = Tally()
    for params in chunk:
        v2_case(t, hd, OFXTree, params)
    return t


def tree_checks(t, hd, OFXTree):
    """OFXTree.parse on whole files gives the reference tree (a subset of layouts x all bodies)"""
    for bodyname, body in BODIES.items():
        ref = ref_sgml.build(body)
        for charset in H.CODECS:
            if not encodable(bodyname, charset):
                continue
            for seps, gap in ((["\r\n"] * 8, "\r\n\r\n"), (["\n"] * 8, "\n"), (["\r\n"] * 8, "\r\n")):
                t.count("evaluations")
                text = H.render_v1(H.v1_fields(102, charset=charset), seps=seps, gap=gap)
                data = text.encode("ascii") + body.encode(H.CODECS[charset])
                case = {"v": "tree1", "body": bodyname, "charset": charset, "seps": seps, "gap": gap}
                try:
                    tr = OFXTree()
                    root = tr.parse(io.BytesIO(data))
                    got = ref_sgml.et_to_term(root)
                except Exception as e:
                    t.fail(f"C05|tree|v1|raises-{type(e).__name__}", case, str(e))
                    continue
                if got != ref:
                    t.fail("C05|tree|v1|tree-differs", case, f"{got} != {ref}")
                else:
                    t.outcome("tree-ok")
        t.count("evaluations")
        data = (H.render_v2(H.v2_fields(203)) + body).encode("utf_8")
        try:
            tr = OFXTree()
            got = ref_sgml.et_to_term(tr.parse(io.BytesIO(data)))
            if got != ref:
                t.fail("C05|tree|v2|tree-differs", {"v": "tree2", "body": bodyname}, f"{got} != {ref}")
        except Exception as e:
            t.fail(f"C05|tree|v2|raises-{type(e).__name__}", {"v": "tree2", "body": bodyname}, str(e))


def run(ctx):
    hd, OFXTree = lib()
    for b in BODIES.values():
        ref_sgml.build(b)
    seed = ctx.seed
    uid_a = ["NONE", "p0rky-p1g_", "0" * 36][seed % 3]
    uid_b = ["d0n41d_duck-1", "_" + "Z" * 34 + "_", "20240131_000123"][(seed + 1) % 3]  # always one with an underscore
    jobs = []
    versions = H.SUPPORTED_V1
    charset_bodies = [(cs, b) for cs in H.CODECS for b in BODIES if b not in LONG and encodable(b, cs)]
    long_bodies = [(cs, b) for cs in H.CODECS for b in LONG if encodable(b, cs)]
    # (1) full product of the uniform layouts
    for sep in SEPS:
        for blanks in (0, 1, 2):
            for lead in LEADS:
                for gap in GAPS:
                    for compression in (True, False):
                        nb = 8 if compression else 7
                        for i, (cs, b) in enumerate(charset_bodies):
                            enc = H.DOMAINS_V1["ENCODING"][(i + blanks) % 3]
                            ver = versions[(i + len(gap)) % len(versions)]
                            sec = ("NONE", "TYPE1")[(i + len(lead)) % 2]
                            jobs.append((ver, sec, enc, cs, compression, uid_a, uid_b, tuple([sep] * nb), blanks, lead, gap, b))
    # (2) all field-value combinations on the standard layout
    for ver in versions + [100, 199]:
        for sec in ("NONE", "TYPE1"):
            for enc in H.DOMAINS_V1["ENCODING"]:
                for cs, b in charset_bodies:
                    jobs.append((ver, sec, enc, cs, True, uid_b, uid_a, tuple(["\r\n"] * 8), 0, "", "\r\n\r\n", b))
    # (3) separators deviating at <= 2 boundaries from each uniform layout
    k = 2
    for base in SEPS:
        alts = [base] + [s for s in SEPS if s != base]
        space = [alts] * 8
        for point in deviations(space, k):
            if not any(point):
                continue
            seps = tuple(alts[i] for i in point)
            for gap in (GAPS if ctx.thorough else GAPS[:4]):
                for cs, b in (("NONE", "ascii"), ("1252", "cp1252"), ("NONE", "utf8")):
                    jobs.append((102, "NONE", "USASCII", cs, True, "NONE", "NONE", seps, 0, "", gap, b))
    # (4) long bodies: standard, one-line and CR-only layouts x UID lengths (shifting where the body starts)
    for cs, b in long_bodies:
        for sep, gap in (("\r\n", "\r\n\r\n"), ("", ""), ("\r", "\r")):
            for new in ("NONE", "1", "22", "333"):
                jobs.append((102, "NONE", "USASCII", cs, True, "NONE", new, tuple([sep] * 8), 0, "", gap, b))
    jobs += [j[:-1] + (j[-1], "DEBUG") for j in jobs[:: 7]] + [j[:-1] + (j[-1], "DEBUG") for j in jobs if j[-1] in LONG]
    tally = ctx.pmap(v1_work, jobs)
    n1 = len(jobs)
    # v2
    jobs2 = []
    for ver in H.SUPPORTED_V2:
        for quote in ('"', "'"):
            for standalone in (True, False):
                for encattr in (True, False):
                    for br1 in ("\r\n", "", "\n"):
                        for br2 in ("\r\n", "", "\n", "\r\n\r\n"):
                            for lead in ("", "\r\n", "\n"):
                                for b in ("ascii", "eacute", "utf8", "multiline"):
                                    jobs2.append((ver, ("NONE", "TYPE1")[len(br1) % 2], uid_a, uid_b, quote, standalone, encattr, br1, br2, lead, b))
    for b in LONG:
        for br1, br2 in (("\r\n", "\r\n"), ("", ""), ("\n", "")):
            for new in ("NONE", "1", "22", "333"):
                jobs2.append((203, "NONE", "NONE", new, '"', True, True, br1, br2, "", b))
    jobs2 += [j + ("DEBUG",) for j in jobs2[:: 7]] + [j + ("DEBUG",) for j in jobs2 if j[-1] in LONG]
    tally.merge(ctx.pmap(v2_work, jobs2))
    tree_checks(tally, hd, OFXTree)
    reparse_after_edit(tally, hd)
    if not tally.fails:
        for o in ("v1-ok-one-line+glued", "v1-ok-cr-only+cr-gap", "v1-ok-line-per-field+lf-gap", "v2-ok-one-line", "v2-ok-lines", "tree-ok", "body-cp1252-1252", "body-c1-ISO-8859-1", "body-utf8-NONE"):
            if o not in tally.outcomes:
                vacuous(tally, f"vacuous: outcome {o} never observed")
    tally.sample({"v1_file": (H.render_v1(H.v1_fields(102, charset="1252"), seps=[""] * 8, gap="") + BODIES["cp1252"])})
    tally.sample({"v2_file": H.render_v2(H.v2_fields(203), quote="'", standalone=False, br1="", br2="") + BODIES["utf8"]})
    cov = {
        "evaluations": tally.counts.get("evaluations", 0),
        "distinct_nontrivial": tally.counts.get("evaluations", 0) - 1,
        "rule": "v1: full product uniform separator {CRLF,LF,CR,none} x blanks after colon {0,1,2} x leading blank lines {0,1,2; CRLF, LF or CR} x gap "
        "{blank line,none,LF,CRLF,CR,two blank lines} x COMPRESSION present/absent x every (charset, body) pair encodable (7 bodies: ascii, e-acute, text whose single-byte encoding is valid UTF-8, "
        "cp1252-only, C1 control, UTF-8 multi-byte, multi-line) with encoding/version/security rotating; all field-value combinations on the standard layout; "
        "separators deviating at <=2 of 8 boundaries from each uniform layout x gaps x 3 bodies; v2: 7 versions x quote x standalone x encoding attr x "
        "breaks x leading blank line x 4 bodies; 5 long bodies (144-180 KB, 2/3/4-byte characters at every alignment) x 3 layouts x 4 UID lengths; every 7th file and every long one again with the library's loggers at DEBUG; 6 files parsed, the returned header edited, and parsed again; each file is a distinct byte string (all but the library's own canonical layout non-trivial)",
        "v1_files": n1,
        "v2_files": len(jobs2),
        "exhaustive": True,
        "distinct_outcomes": len(tally.outcomes),
    }
    return {"tally": tally, "coverage": cov, "assumptions": [
        "single-quoted <?OFX ...?> attributes and an indented <?xml are not layouts the library tolerates and are not demanded",
        "the codec is chosen by CHARSET alone (ISO-8859-1, 1252, NONE=UTF-8), whatever ENCODING says",
        "at most two leading blank lines", "every batch of files is preceded by three files whose body is not decodable in the declared charset (their refusal is not judged here)"]}


def replay(ctx, case):
    hd, OFXTree = lib()
    t = Tally()
    if case["v"] == 1:
        p = case["params"]
        p[7] = tuple(p[7])
        v1_case(t, hd, OFXTree, tuple(p))
    elif case["v"] == 2:
        v2_case(t, hd, OFXTree, tuple(case["params"]))
    else:
        tree_checks(t, hd, OFXTree)
    for sig, (n, c, d) in sorted(t.fails.items()):
        print(" ", sig, "|", d)
    return bool(t.fails)
