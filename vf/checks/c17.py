"""C17  Parsing, converting and writing are pure, repeatable and safe to run in threads.

Operation alphabet of 19 operations with fixed inputs.
 * purity: inputs snapshotted before and after every operation;
 * histories: every sequence of operations up to the depth bound, each in a process forked from a pristine parent
   (library-global state cannot be rebuilt inside a process); after every operation its result must equal the result
   of the same operation alone in a pristine process; the global-state fingerprint reached is recorded;
 * schedules: pairs of operations in two real threads under the deterministic scheduler with line-level scheduling
   points inside ofxtools/ (preemption-bounded), every thread's result must equal its sequential baseline.
"""
import datetime
import hashlib
import io
import itertools
import os
import pickle
import sys
import warnings
import xml.etree.ElementTree as ET

from vf import fakehttp as F
from vf import ref_schema as S
from vf import ref_sgml
from vf import sched
from vf import universe as U
from vf import wire
from vf.checks.c04 import to_et
from vf.core import vacuous, HarnessError, Tally, in_fork, private_xdg

LEVEL = "model_checking"
UTC = datetime.timezone.utc


class NamedTZ(datetime.tzinfo):
    def __init__(self, minutes, name):
        self._o, self._n = datetime.timedelta(minutes=minutes), name

    def utcoffset(self, dt):
        return self._o

    def tzname(self, dt):
        return self._n

    def dst(self, dt):
        return datetime.timedelta(0)


# ---------------------------------------------------------------------------------------------
# inputs (plain data, prepared with reference code only)
# ---------------------------------------------------------------------------------------------
def ofx_rs(*msgsets):
    kw = {"signonmsgsrsv1": F.sonrs_term()}
    for name, term in msgsets:
        kw[name] = term
    return ("OFX", kw, [])


def _stmt_term():
    t = U.MAXD(U.cls_by_name("STMTTRNRS"))
    return ofx_rs(("bankmsgsrsv1", ("BANKMSGSRSV1", {}, [t, U.vary(U.MAXS(U.cls_by_name("STMTTRNRS")), 2)])))


def _inv_term():
    inv = U.MAXD(U.cls_by_name("INVSTMTTRNRS"))
    stock = U.MAXS(U.cls_by_name("STOCKINFO"))
    mf = U.MAXS(U.cls_by_name("MFINFO"))
    sl = ("SECLIST", {}, [stock, mf, U.vary(stock, 3)])
    return ofx_rs(("invstmtmsgsrsv1", ("INVSTMTMSGSRSV1", {}, [inv])), ("seclistmsgsrsv1", ("SECLISTMSGSRSV1", {}, [sl])))


_INPUTS = {}


def inputs():
    if _INPUTS:
        return _INPUTS
    private_xdg()
    st, iv = _stmt_term(), _inv_term()
    _INPUTS["stmt_term"] = st
    _INPUTS["inv_term"] = iv
    _INPUTS["stmt_v1"] = wire.to_bytes(wire.doc(st), "sgml")
    _INPUTS["stmt_v2"] = wire.to_bytes(wire.doc(st), "xml", pretty=True)
    _INPUTS["inv_v2"] = wire.to_bytes(wire.doc(iv), "xml")
    _INPUTS["inv_v1"] = wire.to_bytes(wire.doc(iv), "sgml", pretty=True)
    _INPUTS["prof_v1"] = F.profile_response("T1", datetime.datetime(2020, 1, 1, tzinfo=UTC), {"bank": "http://x/ofx", "cc": "http://x/ofx", "inv": "http://x/ofx"}, form="sgml")
    _INPUTS["truncated"] = _INPUTS["stmt_v2"][: len(_INPUTS["stmt_v2"]) * 2 // 3]
    _INPUTS["unknown_root"] = wire.to_bytes(("NOTOFX", [("A", "1")]), "xml")
    bad = wire.doc(U.MIN(U.cls_by_name("STMTTRNRS")))
    _INPUTS["missing_required"] = wire.to_bytes(("OFX", [wire.doc(F.sonrs_term()), ("BANKMSGSRSV1", [(bad[0], [c for c in bad[1] if c[0] != "TRNUID"])])]), "xml")
    _INPUTS["mail_doc"] = wire.doc(U.MAXS(U.cls_by_name("MAIL")))
    _INPUTS["stock_doc"] = wire.doc(U.MAXS(U.cls_by_name("STOCKINFO")))
    mfd = wire.doc(U.MAXS(U.cls_by_name("MFINFO")))
    _INPUTS["mf_doc_vendor"] = (mfd[0], [mfd[1][0], ("INTU.X", "1")] + list(mfd[1][1:]))
    _INPUTS["two_seclists_doc"] = wire.doc(ofx_rs(("seclistmsgsrsv1", ("SECLISTMSGSRSV1", {}, [("SECLIST", {}, [U.MAXS(U.cls_by_name("STOCKINFO"))]), ("SECLIST", {}, [U.MAXS(U.cls_by_name("MFINFO")), U.vary(U.MAXS(U.cls_by_name("STOCKINFO")), 3)])]))))
    _INPUTS["seclist_doc"] = wire.doc(("SECLIST", {}, [U.MAXS(U.cls_by_name("STOCKINFO")), U.MAXS(U.cls_by_name("MFINFO"))]))
    return _INPUTS


def tree_repr(e):
    return ET.tostring(e, encoding="unicode") + "|tail=" + repr(e.tail)


def model_repr(inst):
    return repr(S.term_key(S.inst_to_term(inst)))


def _parse(data):
    return model_repr(wire.lib_convert(data))


def _fails(fn):
    try:
        r = fn()
    except Exception as e:
        return "raises:" + type(e).__name__
    return "returned:" + str(type(r).__name__)


def _from_tree(key):
    from ofxtools.models.base import Aggregate

    tree = to_et(inputs()[key])
    before = tree_repr(tree)
    with warnings.catch_warnings():
        warnings.simplefilter("ignore")
        inst = Aggregate.from_etree(tree)
    after = tree_repr(tree)
    return model_repr(inst), before == after, "element tree given to from_etree()"


def _parse_tree_convert(key):
    """OFXTree.parse + convert twice: the parsed tree must not change and the second conversion must agree"""
    from ofxtools.Parser import OFXTree

    data = inputs()[key]
    t = OFXTree()
    bio = io.BytesIO(data)
    t.parse(bio)
    before = tree_repr(t.getroot())
    a = model_repr(t.convert())
    mid = tree_repr(t.getroot())
    b = model_repr(t.convert())
    return a, (before == mid and a == b and bio.getvalue() == data), "parsed element tree / source bytes"


def _serialize(termkey, version, pretty, close):
    from ofxtools.Client import OFXClient

    inst = U.build(inputs()[termkey])
    before = model_repr(inst)
    cl = OFXClient("http://x/ofx")
    out = cl.serialize(inst, version=version, prettyprint=pretty, close_elements=close)
    tree = inst.to_etree()
    after = model_repr(inst)
    return hashlib.sha1(out).hexdigest() + ":" + hashlib.sha1(ET.tostring(tree)).hexdigest(), before == after, "model instance given to serialize()/to_etree()"


_SHARED = []


def shared_client():
    """one client object used by every client_* operation of the process (as `ofxget scan` shares one client among its
    worker threads); the clock and the id source are pinned so that a request depends on nothing but the call"""
    if not _SHARED:
        from ofxtools.Client import OFXClient
        from ofxtools.utils import classproperty

        class PinnedClient(OFXClient):
            def dtclient(self):
                return datetime.datetime(2024, 1, 2, 3, 4, 5, tzinfo=UTC)

            @classproperty
            @classmethod
            def uuid(cls):
                return "00000000-0000-4000-8000-000000000001"

        _SHARED.append(PinnedClient("http://x/ofx", userid="user", org="ORG", fid="7", version=203, clientuid="CUID", bankid="123", brokerid="b.example"))
        # a second institution that shares the ORG (a service bureau) but not the FID, the URL or the user
        _SHARED.append(PinnedClient("http://y/ofx", userid="other", org="ORG", fid="8", version=203, clientuid="CUID2", bankid="456"))
    return _SHARED[0]


def _other_client_op():
    shared_client()
    cl = _SHARED[1]
    before = repr(sorted((k, repr(v)) for k, v in vars(cl).items() if k != "cookiejar"))
    out = cl.request_profile(version=102, gen_newfileuid=False, dryrun=True).read()
    after = repr(sorted((k, repr(v)) for k, v in vars(cl).items() if k != "cookiejar"))
    return hashlib.sha1(out).hexdigest() + ":" + out[-200:].decode("ascii", "replace"), before == after, "the second client object (its configuration)"


def _look_then_write():
    """a converted response with two security lists is written, looked at (repr, the securities shortcut - what a log line
    or a debugger does) and written again: looking must not change what is written"""
    from ofxtools.models.base import Aggregate

    with warnings.catch_warnings():
        warnings.simplefilter("ignore")
        inst = Aggregate.from_etree(to_et(inputs()["two_seclists_doc"]))
    w0 = tree_repr(inst.to_etree())
    m0 = model_repr(inst)
    seen = [len(inst.securities), len(repr(inst)) > 0, len(inst.securities)]
    w1 = tree_repr(inst.to_etree())
    return hashlib.sha1(w0.encode()).hexdigest() + repr(seen), (w0 == w1 and model_repr(inst) == m0), "the model instance that was looked at between two writes"


def _client_op(which):
    from ofxtools.Client import StmtRq

    cl = shared_client()
    before = repr(sorted((k, repr(v)) for k, v in vars(cl).items() if k != "cookiejar"))
    if which == "profile-v102":
        out = cl.request_profile(version=102, gen_newfileuid=False, dryrun=True).read()
    elif which == "profile-v160-pretty":
        out = cl.request_profile(version=160, prettyprint=True, close_elements=False, gen_newfileuid=False, dryrun=True).read()
    elif which == "statement":
        out = cl.request_statements("pw", StmtRq(acctid="1", accttype="CHECKING"), gen_newfileuid=False, dryrun=True).read()
    elif which == "serialize-request-overrides":
        # one request instance written several times with per-call overrides: the instance is the caller's
        from ofxtools.models.ofx import OFX

        ofx = OFX(signonmsgsrqv1=cl.signon("pw"))
        m0 = model_repr(ofx)
        out = cl.serialize(ofx, version=102) + cl.serialize(ofx, version=160, prettyprint=True, close_elements=False) + cl.serialize(ofx)
        if model_repr(ofx) != m0:
            return hashlib.sha1(out).hexdigest(), False, "the request instance given to serialize()"
    else:
        out = cl.serialize(U.build(inputs()["stmt_term"]))
    after = repr(sorted((k, repr(v)) for k, v in vars(cl).items() if k != "cookiejar"))
    return hashlib.sha1(out).hexdigest() + ":" + out[:120].decode("ascii", "replace"), before == after, "the client object (its configuration)"


def _conv(kind, narrow):
    """one text through a wide and through a narrow converter of the same type: what the narrow one says must not depend on
    the wide one having seen the text before (and vice versa)"""
    from ofxtools import Types

    text, wide, tight = {
        "string": ("forty characters of perfectly plain text", lambda: Types.String(255), lambda: Types.String(22)),
        "string-entity": ("forty characters &amp; an entity &lt;here&gt;", lambda: Types.String(255), lambda: Types.String(22)),
        "nagstring-entity": ("forty characters &amp; an entity &lt;here&gt;", lambda: Types.NagString(255), lambda: Types.NagString(22)),
        "nagstring": ("forty characters of perfectly plain text", lambda: Types.NagString(255), lambda: Types.NagString(22)),
        "integer": ("12345", lambda: Types.Integer(), lambda: Types.Integer(3)),
        "decimal": ("1.005", lambda: Types.Decimal(), lambda: Types.Decimal(2)),
        "oneof": ("CHECKING", lambda: Types.OneOf("CHECKING", "SAVINGS"), lambda: Types.OneOf("CREDIT", "DEBIT")),
    }[kind]
    conv = (tight if narrow else wide)()
    with warnings.catch_warnings(record=True) as w:
        warnings.simplefilter("always")
        try:
            r = ("ok", repr(conv.convert(text)))
        except Exception as e:
            r = ("refused", type(e).__name__)
    return repr(r + (sorted(type(x.message).__name__ for x in w),)), True, ""


def _parse_edit_header_parse(which):
    """parse a file, edit the header object that came back (to export it again under other settings), parse the same bytes
    again: the second result describes the file, not the first caller's edits"""
    import io

    from ofxtools import header as hd
    from vf import ref_header as H

    if which == "v1":
        fields = H.v1_fields(102, "NONE", "USASCII", "1252", "NONE", "NONE", "uid-1")
        data = H.render_v1(fields).encode("ascii") + "<OFX><A>caf\u00e9 \u20ac</A></OFX>".encode("cp1252")
    else:
        fields = H.v2_fields(203, "NONE", "NONE", "uid-1")
        data = (H.render_v2(fields) + "<OFX><A>caf\u00e9 \u20ac</A></OFX>").encode("utf_8")
    h1, _ = hd.parse_header(io.BytesIO(data))
    for attr, val in (("version", 103 if which == "v1" else 220), ("newfileuid", "EDITED"), ("security", "TYPE1"), ("charset", "NONE")):
        if hasattr(h1, attr):
            setattr(h1, attr, val)
    h2, body = hd.parse_header(io.BytesIO(data))
    got = H.header_obj_fields(h2)
    return repr((sorted(got.items()), body)), got == fields and h2 is not h1, "a header object returned to an earlier caller (the later parse shows that caller's edits)"


def _unclosed(which):
    """the end-tag-less writer: a small request written whole; and a call that fails half-way (a tree holding a number
    where text belongs), which must leave nothing behind for the next call"""
    from ofxtools import utils

    if which == "failing":
        root = ET.Element("A")
        ET.SubElement(root, "B").text = "kept text"
        ET.SubElement(root, "C").text = 5
        return _fails(lambda: utils.tostring_unclosed_elements(root)), True, ""
    inst = U.build(U.MIN(U.cls_by_name("STMTTRNRQ" if which == "rq" else "STMTTRNRS")))
    out = utils.tostring_unclosed_elements(inst.to_etree())
    return hashlib.sha1(out).hexdigest() + ":" + out[:60].decode("ascii", "replace"), True, ""


def _ofxget_reads_garbage():
    """ofxget's scan reads whatever a server answers: the readers of the script given an HTML error page and a mangled
    profile (refusals are the expected outcome)"""
    import io

    from ofxtools.scripts import ofxget as og

    out = []
    for data in (b"<html><body>Service unavailable</body></html>", inputs()["prof_v1"].replace(b"<LANGUAGE>ENG", b"<LANGUAGE>KLINGON"), inputs()["truncated"]):
        for fn in (og.extract_signoninfos, og.extract_acctinfos):
            out.append(_fails(lambda: list(fn(io.BytesIO(data)))))
    return repr(out), True, ""


def _parse_small(which):
    term = U.MIN(U.cls_by_name("STMTTRNRS")) if which == "v1" else U.MIN(U.cls_by_name("ACCTINFOTRNRS"))
    data = wire.to_bytes(wire.doc(ofx_rs(("bankmsgsrsv1", ("BANKMSGSRSV1", {}, [term])) if which == "v1" else ("signupmsgsrsv1", ("SIGNUPMSGSRSV1", {}, [term])))), "sgml" if which == "v1" else "xml")
    return _parse(data), True, ""


def _dt_convert(which):
    from ofxtools import Types
    from ofxtools import models

    text = "20240229115959.500[-5:EST]" if which != "C" else "20231231235959.999[+5.30:IST]"
    if which == "A":
        d = Types.DateTime()
    elif which == "B":
        d = vars(models.STMTTRN)["dtposted"]
    else:
        d = Types.DateTime(required=True)
    v = d.convert(text)
    return repr((v.isoformat(), d.unconvert(v))), True, ""


def _dt_unconvert(kind):
    from ofxtools import Types

    base = datetime.datetime(2023, 3, 1, 12, 0, 0, 250000, tzinfo=UTC)
    if kind == "utc":
        v, conv = base, Types.DateTime()
    elif kind == "est":
        v, conv = base.astimezone(NamedTZ(-300, "EST")), Types.DateTime()
    elif kind == "ist":
        v, conv = base.astimezone(NamedTZ(330, None)), Types.DateTime()
    elif kind == "time-utc":
        v, conv = datetime.time(12, 0, 0, 250000, tzinfo=UTC), Types.Time()
    else:
        v, conv = datetime.time(7, 0, 0, 250000, tzinfo=NamedTZ(-300, "EST")), Types.Time()
    return conv.unconvert(v), True, ""


def _two_instances():
    from ofxtools import models
    from ofxtools.Client import OFXClient

    a = models.STMTTRN(trntype="CHECK", dtposted=datetime.datetime(2024, 1, 1, tzinfo=UTC), trnamt="1.50", fitid="A", name="first")
    b = models.STMTTRN(trntype="DEBIT", dtposted=datetime.datetime(2023, 6, 30, 23, 0, tzinfo=NamedTZ(-300, "EST")), trnamt="-99.99", fitid="B", memo="second")
    ta = ET.tostring(a.to_etree())
    tb = ET.tostring(b.to_etree())
    return hashlib.sha1(ta + b"|" + tb).hexdigest() + ":" + a.fitid + b.fitid + str(a.memo) + str(b.name), True, ""


def _introspect():
    """what a schema dump / documentation tool does: read the introspection properties of the exported base classes"""
    import ofxtools.models as M
    from ofxtools.models.base import Aggregate, ElementList

    out = []
    for base in (Aggregate, ElementList, M.TrnRq, M.TrnRs, M.SyncRqList, M.SyncRsList, getattr(M, "TranList", Aggregate)):
        for prop in ("spec", "spec_no_listaggregates", "elements", "subaggregates", "listaggregates", "listelements", "unsupported"):
            out.append((base.__name__, prop, tuple(getattr(base, prop).keys())))
    return repr(out), True, ""


OPS = {
    "introspect_base_classes": _introspect,
    "parse_stmt_v1": lambda: (_parse(inputs()["stmt_v1"]), True, ""),
    "parse_stmt_v2": lambda: _parse_tree_convert("stmt_v2"),
    "parse_inv_v2": lambda: _parse_tree_convert("inv_v2"),
    "parse_inv_v1": lambda: (_parse(inputs()["inv_v1"]), True, ""),
    "parse_profile_v1": lambda: (_parse(inputs()["prof_v1"]), True, ""),
    "from_etree_mail": lambda: _from_tree("mail_doc"),
    "from_etree_stockinfo": lambda: _from_tree("stock_doc"),
    "from_etree_mfinfo_vendor": lambda: _from_tree("mf_doc_vendor"),
    "from_etree_seclist": lambda: _from_tree("seclist_doc"),
    "serialize_stmt_v2": lambda: _serialize("stmt_term", 203, False, True),
    "serialize_inv_v1_unclosed_pretty": lambda: _serialize("inv_term", 102, True, False),
    "parse_truncated": lambda: (_fails(lambda: wire.lib_convert(inputs()["truncated"])), True, ""),
    "parse_unknown_root": lambda: (_fails(lambda: wire.lib_convert(inputs()["unknown_root"])), True, ""),
    "convert_missing_required": lambda: (_fails(lambda: wire.lib_convert(inputs()["missing_required"])), True, ""),
    "dt_convert_fresh_descriptor": lambda: _dt_convert("A"),
    "dt_convert_class_descriptor": lambda: _dt_convert("B"),
    "dt_unconvert_utc": lambda: _dt_unconvert("utc"),
    "dt_unconvert_est_same_instant": lambda: _dt_unconvert("est"),
    "dt_unconvert_ist_same_instant": lambda: _dt_unconvert("ist"),
    "time_unconvert_utc": lambda: _dt_unconvert("time-utc"),
    "time_unconvert_est_same_instant": lambda: _dt_unconvert("time-est"),
    "two_instances_one_class": _two_instances,
    "parse_edit_header_parse_v1": lambda: _parse_edit_header_parse("v1"),
    "parse_edit_header_parse_v2": lambda: _parse_edit_header_parse("v2"),
    "write_unclosed_small_request": lambda: _unclosed("rq"),
    "write_unclosed_small_response": lambda: _unclosed("rs"),
    "write_unclosed_failing": lambda: _unclosed("failing"),
    "ofxget_reads_non_ofx_answers": _ofxget_reads_garbage,
    "parse_small_stmt_v1": lambda: _parse_small("v1"),
    "parse_small_acctinfo_v2": lambda: _parse_small("v2"),
    "string_wide_limit": lambda: _conv("string", False),
    "string_narrow_limit": lambda: _conv("string", True),
    "string_entity_wide_limit": lambda: _conv("string-entity", False),
    "string_entity_narrow_limit": lambda: _conv("string-entity", True),
    "nagstring_entity_wide_limit": lambda: _conv("nagstring-entity", False),
    "nagstring_entity_narrow_limit": lambda: _conv("nagstring-entity", True),
    "nagstring_wide_limit": lambda: _conv("nagstring", False),
    "nagstring_narrow_limit": lambda: _conv("nagstring", True),
    "integer_unbounded": lambda: _conv("integer", False),
    "integer_three_digits": lambda: _conv("integer", True),
    "decimal_unscaled": lambda: _conv("decimal", False),
    "decimal_two_places": lambda: _conv("decimal", True),
    "oneof_declaring_token": lambda: _conv("oneof", False),
    "oneof_not_declaring_token": lambda: _conv("oneof", True),
    "client_profile_rq_v102": lambda: _client_op("profile-v102"),
    "client_profile_rq_v160_unclosed_pretty": lambda: _client_op("profile-v160-pretty"),
    "client_statement_rq": lambda: _client_op("statement"),
    "client_serialize_default_form": lambda: _client_op("serialize"),
    "client_serialize_request_with_overrides": lambda: _client_op("serialize-request-overrides"),
    "other_client_same_org_profile_rq": _other_client_op,
    "write_look_write_two_seclists": _look_then_write,
}
OPNAMES = list(OPS)
SMALL = ["dt_convert_fresh_descriptor", "dt_convert_class_descriptor", "dt_unconvert_utc", "dt_unconvert_est_same_instant", "time_unconvert_utc", "time_unconvert_est_same_instant"]
MEDIUM = ["introspect_base_classes", "from_etree_mail", "from_etree_stockinfo", "from_etree_mfinfo_vendor", "two_instances_one_class", "from_etree_seclist"]
PARSE_SMALL = ["parse_small_stmt_v1", "parse_small_acctinfo_v2"]
WRITE_SMALL = ["write_unclosed_small_request", "write_unclosed_small_response"]
EXTRA = ["parse_edit_header_parse_v1", "parse_edit_header_parse_v2", "write_unclosed_failing", "ofxget_reads_non_ofx_answers"] + WRITE_SMALL
CONV = ["string_wide_limit", "string_narrow_limit", "string_entity_wide_limit", "string_entity_narrow_limit", "nagstring_entity_wide_limit", "nagstring_entity_narrow_limit", "nagstring_wide_limit", "nagstring_narrow_limit", "integer_unbounded", "integer_three_digits", "decimal_unscaled", "decimal_two_places",
        "oneof_declaring_token", "oneof_not_declaring_token"]
CLIENT = ["client_profile_rq_v102", "client_profile_rq_v160_unclosed_pretty", "client_statement_rq", "client_serialize_default_form", "client_serialize_request_with_overrides"]
BIG = ["parse_stmt_v1", "parse_inv_v2", "serialize_stmt_v2", "serialize_inv_v1_unclosed_pretty", "parse_profile_v1", "parse_truncated"]


def run_op(name):
    with warnings.catch_warnings():
        warnings.simplefilter("ignore")
        try:
            r, pure, what = OPS[name]()
            return ("ok", r, pure, what)
        except Exception as e:
            return ("exc", type(e).__name__ + ": " + str(e)[:100], True, "")


# ---------------------------------------------------------------------------------------------
# global-state fingerprint
# ---------------------------------------------------------------------------------------------
def fingerprint():
    """single-dispatch registries of ofxtools.Types, module-level mutable containers of ofxtools.* modules, class
    __dict__ keys of the model classes"""
    h = hashlib.sha1()
    from ofxtools import Types

    for cname, cls in sorted(vars(Types).items()):
        if isinstance(cls, type):
            for an, attr in sorted(vars(cls).items()):
                disp = getattr(attr, "dispatcher", None)
                if disp is not None:
                    for typ, fn in sorted(disp.registry.items(), key=lambda kv: kv[0].__name__):
                        bound = getattr(fn, "__self__", None)
                        h.update(f"{cname}.{an}:{typ.__name__}->{getattr(fn, '__qualname__', fn)}|{type(bound).__name__ if bound is not None else '-'}|{getattr(bound, 'required', '-')};".encode())
    for mname, mod in sorted(sys.modules.items()):
        if mname.startswith("ofxtools") and mod is not None:
            for k, v in sorted(vars(mod).items()):
                if isinstance(v, (list, dict, set)) and not k.startswith("__"):
                    try:
                        h.update(f"{mname}.{k}:{len(v)};".encode())
                    except Exception:
                        pass
            for k, v in vars(mod).items():
                ci = getattr(v, "cache_info", None)
                if callable(ci):
                    h.update(f"{mname}.{k}:cache{ci().currsize};".encode())
    import ofxtools.models as M

    for n in sorted(dir(M)):
        c = getattr(M, n)
        if isinstance(c, type):
            h.update(f"{n}:{len(vars(c))};".encode())
    return h.hexdigest()[:16]


# ---------------------------------------------------------------------------------------------
# histories in forked children
# ---------------------------------------------------------------------------------------------
def _in_fork_local(fn):
    r, w = os.pipe()
    pid = os.fork()
    if pid == 0:
        try:
            os.close(r)
            try:
                out = ("ok", fn())
            except BaseException as e:
                out = ("err", repr(e))
            with os.fdopen(w, "wb") as f:
                pickle.dump(out, f)
        finally:
            os._exit(0)
    os.close(w)
    with os.fdopen(r, "rb") as f:
        data = f.read()
    os.waitpid(pid, 0)
    if not data:
        raise HarnessError("forked child died without a result")
    kind, val = pickle.loads(data)
    if kind == "err":
        raise HarnessError("forked child failed: " + val)
    return val


def seq_body(seq):
    def f():
        inputs()
        out = []
        for name in seq:
            out.append(run_op(name))
        return out, fingerprint()

    return f


def hist_work(chunk):
    t = Tally()
    base = {}
    for name in sorted({n for seq in chunk for n in seq}):
        (res,), fp = in_fork(seq_body((name,)))
        base[name] = res
    for seq in chunk:
        t.count("evaluations")
        t.count("histories")
        results, fp = in_fork(seq_body(seq))
        t.outcome("fp:" + fp)
        for i, (name, r) in enumerate(zip(seq, results)):
            t.count("transitions")
            case = {"part": "history", "seq": list(seq), "index": i}
            if not r[2]:
                t.fail(f"C17|purity|{name}|input-modified", case, f"{name} changed its input ({r[3]})")
                break
            b = base[name]
            if (r[0], r[1]) != (b[0], b[1]):
                prev = seq[:i]
                t.fail(f"C17|history|{name}|result-depends-on-earlier-work|after-{'+'.join(prev) if prev else 'nothing'}"[:200], case,
                       f"{name} after {list(prev)}: {str(r[1])[:150]!r} != alone {str(b[1])[:150]!r}")
                break
        else:
            t.outcome("history-ok")
    return t


# ---------------------------------------------------------------------------------------------
# schedules
# ---------------------------------------------------------------------------------------------
def sched_work(chunk):
    t = Tally()
    inputs()
    repo = os.environ.get("VERIF_REPO", "/repo")
    prefixes = (os.path.join(os.path.realpath(repo), "ofxtools") + os.sep,)
    base = {}
    for names, bound, cap, gran in chunk:
        fvo = gran.endswith("-first")
        gran = gran.replace("-first", "")
        for n in names:
            if n not in base:
                base[n] = run_op(n)

        def make_bodies():
            return [(lambda n=n: run_op(n)) for n in names]

        def check(x):
            t.count("evaluations")
            t.count("schedules")
            case = {"part": "sched", "ops": list(names), "schedule": [i for i, c in enumerate(x.choices) if c != 0][:20], "choices_len": len(x.choices)}
            if x.deadlock:
                t.fail(f"C17|sched|{'+'.join(names)}|deadlock", case, "")
                return
            for i, n in enumerate(names):
                r = x.results[i]
                if x.errors[i] is not None:
                    t.fail(f"C17|sched|{n}|thread-raises-{type(x.errors[i]).__name__}|with-{'+'.join(m for j, m in enumerate(names) if j != i)}", case, repr(x.errors[i])[:150])
                    return
                if not r[2]:
                    t.fail(f"C17|purity|{n}|input-modified", case, r[3])
                    return
                if (r[0], r[1]) != (base[n][0], base[n][1]):
                    t.fail(f"C17|sched|{n}|result-differs-under-concurrency|with-{'+'.join(m for j, m in enumerate(names) if j != i)}", case,
                           f"{n}: {str(r[1])[:120]!r} != sequential {str(base[n][1])[:120]!r} (switches at points {case['schedule']})")
                    return
            t.outcome("sched-ok")

        r = sched.explore(make_bodies, bound, check, trace_prefixes=prefixes, max_executions=cap, granularity=gran, first_visits_only=fvo)
        t.count("sched-pairs")
        t.counts["points_max"] = max(t.counts.get("points_max", 0), r["points_max"])
        if r["capped"]:
            t.count("capped-pairs")
        t.sample({"part": "sched", "ops": list(names), "preemption_bound": bound, "granularity": gran + ("-first-visits" if fvo else ""), "executions": r["executions"], "points": r["points_max"], "capped": r["capped"]}, cap=8)
    return t


def determinism_selfcheck():
    """one recorded schedule replayed in two separate pristine processes gives identical points and observations"""
    def once():
        inputs()
        repo = os.environ.get("VERIF_REPO", "/repo")
        prefixes = (os.path.join(os.path.realpath(repo), "ofxtools") + os.sep,)
        names = ("dt_convert_fresh_descriptor", "dt_unconvert_est_same_instant")
        x = sched.Scheduler([(lambda n=n: run_op(n)) for n in names], [0, 0, 0, 1, 0, 0, 1], prefixes).run()
        return (list(x.choices), [r[:2] for r in x.results])

    a, b = in_fork(once), in_fork(once)
    if a != b:
        raise HarnessError(f"schedule replay is not deterministic: {a} vs {b}")
    if len(a[0]) < 10:
        raise HarnessError("line-level tracing produced too few scheduling points")


def free_running(t):
    import threading

    base = {n: run_op(n) for n in OPNAMES}
    bad = []

    def body(i):
        for k in range(3):
            n = OPNAMES[(i * 5 + k * 7) % len(OPNAMES)]
            r = run_op(n)
            if (r[0], r[1]) != (base[n][0], base[n][1]):
                bad.append(n)

    th = [threading.Thread(target=body, args=(i,)) for i in range(16)]
    for x in th:
        x.start()
    for x in th:
        x.join()
    return {"threads": 16, "mismatches": sorted(set(bad))}


def dispatch(chunk):
    t = Tally()
    for kind, job in chunk:
        if kind == "hist":
            t.merge(hist_work(job))
        else:
            # schedules execute library code in-process: keep the pool worker pristine (history children are forked
            # from it) by running them in a child of their own
            t.merge(in_fork(lambda: sched_work([job])))
    return t


def run(ctx):
    inputs()
    determinism_selfcheck()
    depth = 2 if ctx.quick else 3
    seqs = []
    for n in range(1, depth + 1):
        if n == 3:
            # depth 3: all triples over the operations that touch library-global state or share class-level objects, plus
            # every pair followed/preceded by each of them
            core = SMALL + MEDIUM + ["serialize_stmt_v2", "parse_truncated", "convert_missing_required"] + CLIENT[:1] + CLIENT[3:] + CONV[:4]
            seqs += list(itertools.product(core, repeat=3))
        elif n == 1:
            seqs += [(o,) for o in OPNAMES]
        else:
            # all pairs over the document / tree / client operations; the converter probes among themselves; the small
            # parses with the failing parses and with each other
            main = [o for o in OPNAMES if o not in CONV and o not in PARSE_SMALL and o not in EXTRA]
            seqs += list(itertools.product(EXTRA + ["serialize_inv_v1_unclosed_pretty", "parse_truncated", "string_narrow_limit", "string_entity_narrow_limit", "parse_stmt_v1"], repeat=2))
            seqs += list(itertools.product(main, repeat=2))
            seqs += list(itertools.product(CONV, repeat=2))
            mix = PARSE_SMALL + ["parse_truncated", "parse_unknown_root", "convert_missing_required", "parse_stmt_v1"]
            seqs += [p for p in itertools.product(mix, repeat=2) if p[0] in PARSE_SMALL or p[1] in PARSE_SMALL]
    rot = ctx.seed % len(seqs)
    seqs = seqs[rot:] + seqs[:rot]
    jobs = [("hist", seqs[i : i + 40]) for i in range(0, len(seqs), 40)]  # neighbours share operations: few baselines per chunk
    pairs = []
    for a, b in itertools.combinations_with_replacement(SMALL, 2):
        pairs.append(((a, b), 2, None, "line"))
    seenp = set()
    for a in MEDIUM:
        for b in MEDIUM + SMALL[:2]:
            if (b, a) in seenp:
                continue
            seenp.add((a, b))
            if ctx.quick:
                pairs.append(((a, b), 1, None, "line-first"))
            else:
                pairs.append(((a, b), 2, 2500, "call-first"))
                pairs.append(((a, b), 1, 2000, "line"))
    # two parses running at once (each with its own OFXTree and source): a switch at the first visit of every function call
    for a, b in itertools.combinations_with_replacement(PARSE_SMALL, 2):
        pairs.append(((a, b), 1, 3000, "call-first"))
    # two end-tag-less writes at once: a switch at the first visit of every line
    for a, b in itertools.combinations_with_replacement(WRITE_SMALL, 2):
        pairs.append(((a, b), 1, 3000, "line-first"))
    # one client object shared by two threads: a switch at the first visit of every function call inside ofxtools
    for a, b in itertools.combinations(CLIENT, 2):
        pairs.append(((a, b), 1, 1500, "call-first"))
    for a, b in itertools.combinations(BIG, 2):
        pairs.append(((a, b), 0, None, "call"))
        pairs.append(((b, a), 0, None, "call"))
    if ctx.thorough:
        for a, b in (("parse_stmt_v1", "parse_inv_v2"), ("serialize_stmt_v2", "parse_stmt_v1"), ("serialize_stmt_v2", "serialize_inv_v1_unclosed_pretty"), ("parse_profile_v1", "from_etree_seclist")):
            pairs.append(((a, b), 1, 600, "call-first"))
        for tri in (("dt_convert_fresh_descriptor", "dt_unconvert_utc", "dt_unconvert_est_same_instant"), ("from_etree_stockinfo", "from_etree_mfinfo_vendor", "two_instances_one_class")):
            pairs.append((tri, 2 if tri[0].startswith("dt") else 1, 4000, "line" if tri[0].startswith("dt") else "call"))
    jobs += [("sched", p) for p in pairs]
    jobs.sort(key=lambda j: 0 if j[0] == "sched" and j[1][1] == 1 else 1)
    tally = ctx.pmap(dispatch, jobs, chunk=1)
    pm = tally.counts.pop("points_max", 0)
    smoke = in_fork(lambda: free_running(None))
    if smoke["mismatches"]:
        tally.sample({"free_running_smoke_mismatches": smoke["mismatches"]})
    fps = [o for o in tally.outcomes if o.startswith("fp:")]
    if tally.counts.get("histories", 0) < 300 or tally.counts.get("schedules", 0) < 500:
        vacuous(tally, f"vacuous: {tally.counts}")
    if len(fps) < 2:
        vacuous(tally, "vacuous: the global-state fingerprint never changed (run-time registration of dispatch handlers should show)")
    cov = {
        "states": len(fps),
        "transitions": tally.counts.get("transitions", 0),
        "traces_validated_against_impl": tally.counts.get("histories", 0),
        "samples": tally.samples[:6],
        "schedules": tally.counts.get("schedules", 0),
        "schedule_pairs": tally.counts.get("sched-pairs", 0),
        "schedule_pairs_capped": tally.counts.get("capped-pairs", 0),
        "max_points_per_schedule": pm,
        "free_running_smoke": smoke,
        "rule": f"{len(OPNAMES)} operations (parse+convert of bank/investment/profile documents in v1/v2, from_etree of MAIL/STOCKINFO/MFINFO/SECLIST trees incl. a vendor tag, serialize in 2 wire forms, 3 failing "
        "parses, DateTime.convert on fresh and class-level descriptors, DateTime/Time.unconvert of one instant in several zones, two instances of one class); histories: every sequence of length <= "
        f"{depth}" + (" (length 3 over the 14 operations that touch shared state)" if depth == 3 else "") + " in a process forked from a pristine parent, each result compared with the operation alone in a "
        "pristine process, inputs snapshotted before/after; states = distinct global-state fingerprints reached (dispatch registries, module-level containers and caches, class dictionaries); "
        "schedules: all pairs of the 6 converter operations with preemption bound 2 at line granularity (every line executed inside ofxtools/ is a scheduling point); pairs of tree/instance "
        "operations at function-call granularity with bound " + ("1" if ctx.quick else "2 (capped at 2500 executions per pair; the evidence counts the capped pairs) and at line granularity with bound 1 (capped at 2000)") +
        "; all ordered pairs of the 6 whole-document operations with bound 0" + ("; 4 whole-document pairs with bound 1 (capped at 1500) and 2 triples (capped at 4000)" if ctx.thorough else "") ,
        "exhaustive": True,
    }
    return {"tally": tally, "coverage": cov, "assumptions": [
        "2-3 threads at line (not bytecode) granularity; code inside C extensions and non-traced stdlib modules is atomic to the scheduler",
        "the free-running 16-thread repetition is a smoke test and decides nothing",
        "fingerprints only describe the states reached; verdicts come from comparing results"]}


def replay(ctx, case):
    inputs()
    if case["part"] == "history":
        t = hist_work([tuple(case["seq"])])
    else:
        t = sched_work([(tuple(case["ops"]), 2, 2000, "line"), (tuple(case["ops"]), 1, 2000, "call")])
    for sig, (n, c, d) in sorted(t.fails.items()):
        print(" ", sig, "|", d)
    return bool(t.fails)
