"""C20  Security-identifier check digits are right: valid ids pass, corrupted ids fail.

Digit sub-spaces complete; <=2-position variations over the full alphabets around seed-chosen bases;
for every completed identifier of the variation sets every other character in the check position.
Oracle: vf.ref_ids.
"""
import itertools

from vf import ref_ids as R
from vf.core import vacuous, HarnessError, Tally

LEVEL = "exploration"

CHECKCHARS = "0123456789ABCXYZ*@# "


def _u():
    from ofxtools import utils

    return utils


def charclass(s):
    if any(c in "*@#" for c in s):
        return "special"
    if any(c.isalpha() for c in s):
        return "alnum"
    return "digits"


def chk_cusip(t, U, base, alter):
    t.count("evaluations")
    exp = R.cusip_check(base)
    cc = charclass(base)
    try:
        got = U.cusip_checksum(base)
    except Exception as e:
        t.fail(f"C20|cusip|{cc}|checksum-raises-{type(e).__name__}", {"kind": "cusip", "base": base}, f"{base!r}: {e}")
        return
    if got != exp:
        t.fail(f"C20|cusip|{cc}|wrong-check-digit", {"kind": "cusip", "base": base}, f"{base!r}: library {got!r}, reference {exp!r}")
        return
    t.outcome("cusip-ok-" + exp)
    if not alter:
        return
    full = base + exp
    try:
        v = U.validate_cusip(full)
    except Exception as e:
        v = f"raises {type(e).__name__}"
    if v is not True:
        t.fail(f"C20|cusip|{cc}|valid-id-rejected", {"kind": "cusip-validate", "id": full}, f"{full!r}: {v}")
    for ch in CHECKCHARS:
        if ch == exp:
            continue
        t.count("evaluations")
        bad = base + ch
        try:
            v = U.validate_cusip(bad)
        except Exception:
            v = False
        if v:
            t.fail(f"C20|cusip|{cc}|corrupted-id-validates", {"kind": "cusip-validate", "id": bad}, bad)
        else:
            t.outcome("cusip-corrupt-rejected")
    # conversion
    try:
        isin = U.cusip2isin(full)
        ok = len(isin) == 12 and isin[:2] == "US" and isin[2:11] == full and isin[11] == R.isin_check(isin[:11]) and U.validate_isin(isin) is True
    except Exception as e:
        if cc == "special":
            # ISINs are alphanumeric: a CUSIP with * @ # has no ISIN; refusing is right
            t.outcome("cusip2isin-special-refused")
            return
        isin, ok = f"raises {type(e).__name__}: {e}", False
    if cc == "special" and not ok:
        t.outcome("cusip2isin-special-not-valid")
        return
    if not ok:
        t.fail(f"C20|cusip2isin|{cc}|bad-conversion", {"kind": "cusip2isin", "id": full}, f"{full!r} -> {isin!r}")


def cusip_digits_work(chunk):
    U = _u()
    t = Tally()
    for prefix, ndig, alter_mod in chunk:
        fmt = "{:0%dd}" % ndig
        for i in range(10**ndig):
            base = prefix + fmt.format(i)
            chk_cusip(t, U, base, alter=(i % alter_mod == 0))
    return t


def variations(base, alphabet, k=2):
    n = len(base)
    yield base
    for i in range(n):
        for c in alphabet:
            if c != base[i]:
                yield base[:i] + c + base[i + 1 :]
    if k >= 2:
        for i, j in itertools.combinations(range(n), 2):
            for c in alphabet:
                if c == base[i]:
                    continue
                for d in alphabet:
                    if d == base[j]:
                        continue
                    yield base[:i] + c + base[i + 1 : j] + d + base[j + 1 :]


def cusip_var_work(chunk):
    U = _u()
    t = Tally()
    for bases in chunk:
        for base in bases:
            chk_cusip(t, U, base, alter=True)
    return t


def chk_sedol(t, U, base, alter):
    t.count("evaluations")
    exp = R.sedol_check(base)
    cc = charclass(base)
    try:
        got = U.sedol_checksum(base)
    except Exception as e:
        t.fail(f"C20|sedol|{cc}|checksum-raises-{type(e).__name__}", {"kind": "sedol", "base": base}, f"{base!r}: {e}")
        return
    if got != exp:
        t.fail(f"C20|sedol|{cc}|wrong-check-digit", {"kind": "sedol", "base": base}, f"{base!r}: library {got!r}, reference {exp!r}")
        return
    t.outcome("sedol-ok-" + exp)
    if not alter:
        return
    full = base + exp
    try:
        isin = U.sedol2isin(full)
        ok = len(isin) == 12 and isin[:2] == "GB" and isin[2:11] == "00" + full and isin[11] == R.isin_check(isin[:11]) and U.validate_isin(isin) is True
    except Exception as e:
        isin, ok = f"raises {type(e).__name__}: {e}", False
    if not ok:
        t.fail(f"C20|sedol2isin|{cc}|bad-conversion", {"kind": "sedol2isin", "id": full}, f"{full!r} -> {isin!r}")
    for ch in "0123456789BCDFGHJKLMNPQRSTVWXYZ":
        if ch == exp:
            continue
        t.count("evaluations")
        try:
            r = U.sedol2isin(base + ch)
        except Exception:
            t.outcome("sedol-corrupt-rejected")
            continue
        t.fail(f"C20|sedol2isin|{cc}|corrupted-id-converted", {"kind": "sedol2isin", "id": base + ch}, f"{base + ch!r} -> {r!r}")


def sedol_work(chunk):
    U = _u()
    t = Tally()
    for job in [j for js in chunk for j in js]:
        if job[0] == "digits":
            _, lo, hi = job
            for i in range(lo, hi):
                chk_sedol(t, U, f"{i:06d}", alter=(i % 10 == 0))
        else:
            chk_sedol(t, U, job[1], alter=True)
    return t


def chk_isin(t, U, base, alter):
    t.count("evaluations")
    exp = R.isin_check(base)
    cc = charclass(base[2:])
    try:
        got = U.isin_checksum(base)
    except Exception as e:
        t.fail(f"C20|isin|{cc}|checksum-raises-{type(e).__name__}", {"kind": "isin", "base": base}, f"{base!r}: {e}")
        return
    if got != exp:
        t.fail(f"C20|isin|{cc}|wrong-check-digit", {"kind": "isin", "base": base}, f"{base!r}: library {got!r}, reference {exp!r}")
        return
    t.outcome("isin-ok-" + exp)
    if not alter:
        return
    full = base + exp
    try:
        v = U.validate_isin(full)
    except Exception as e:
        v = f"raises {type(e).__name__}"
    if v is not True:
        t.fail(f"C20|isin|{cc}|valid-id-rejected", {"kind": "isin-validate", "id": full}, f"{full!r}: {v}")
    for ch in CHECKCHARS:
        if ch == exp:
            continue
        t.count("evaluations")
        try:
            v = U.validate_isin(base + ch)
        except Exception:
            v = False
        if v:
            t.fail(f"C20|isin|{cc}|corrupted-id-validates", {"kind": "isin-validate", "id": base + ch}, base + ch)
        else:
            t.outcome("isin-corrupt-rejected")


def isin_work(chunk):
    U = _u()
    t = Tally()
    for job in [j for js in chunk for j in js]:
        if job[0] == "range":
            _, prefix, body4, lo, hi, alter_mod = job
            for i in range(lo, hi):
                chk_isin(t, U, f"{prefix}{body4}{i:05d}", alter=(i % alter_mod == 0))
        else:
            chk_isin(t, U, job[1], alter=True)
    return t


def unified_work(chunk):
    t = Tally()
    by = {}
    for kind, job in chunk:
        by.setdefault(kind, []).append(job)
    for kind, jobs in by.items():
        t.merge({"cd": cusip_digits_work, "cv": cusip_var_work, "s": sedol_work, "i": isin_work}[kind](jobs))
    return t


def probe(t, U, after):
    """a fixed set of valid identifiers re-verified against the reference: the answer for a valid id must not depend on
    what the functions were asked before (in particular on calls they refused)"""
    for base in ("03783310", "38259P50", "ZZZZZZZZ", "0*1@2#3A"):
        t.count("evaluations")
        exp = R.cusip_check(base)
        try:
            ok = U.cusip_checksum(base) == exp and U.validate_cusip(base + exp) is True
            if ok and base.isalnum():
                iso = U.cusip2isin(base + exp)
                ok = iso == "US" + base + exp + R.isin_check("US" + base + exp)
        except Exception:
            ok = False
        if not ok:
            t.fail(f"C20|cusip|valid-id-after-a-refused-call|{after[0]}", {"kind": "after-refused", "fn": after[0], "arg": after[1], "id": base}, f"{base!r} after {after}")
            return False
    for base in ("011100", "B1B2B3", "026349", "ZZZZZZ"):
        t.count("evaluations")
        exp = R.sedol_check(base)
        try:
            ok = U.sedol_checksum(base) == exp and U.sedol2isin(base + exp) == "GB00" + base + exp + R.isin_check("GB00" + base + exp)
        except Exception:
            ok = False
        if not ok:
            t.fail(f"C20|sedol|valid-id-after-a-refused-call|{after[0]}", {"kind": "after-refused", "fn": after[0], "arg": after[1], "id": base}, f"{base!r} after {after}")
            return False
    for base in ("US037833100", "GB000263494", "ZAZZZZZZZZZ", "DE000BAY001"):
        t.count("evaluations")
        exp = R.isin_check(base)
        try:
            ok = U.isin_checksum(base) == exp and U.validate_isin(base + exp) is True
        except Exception:
            ok = False
        if not ok:
            t.fail(f"C20|isin|valid-id-after-a-refused-call|{after[0]}", {"kind": "after-refused", "fn": after[0], "arg": after[1], "id": base}, f"{base!r} after {after}")
            return False
    return True


def disturbances(t, U):
    """every function x arguments it refuses (an invalid character at each position, lower case, wrong length, wrong
    type, wrong check character, unknown prefix), each followed by probe()"""
    if not probe(t, U, ("nothing", "")):
        return
    bad = {}
    for fn, good in (("cusip_checksum", "03783310"), ("validate_cusip", "037833100"), ("cusip2isin", "037833100"), ("sedol_checksum", "011100"), ("sedol2isin", "0111009"),
                     ("isin_checksum", "US037833100"), ("validate_isin", "US0378331005")):
        args = []
        for i in range(len(good)):
            for ch in ("A" if fn.startswith("sedol") else "a", "-", " ", "\u00e9", "E" if fn.startswith("sedol") else "$"):
                args.append(good[:i] + ch + good[i + 1 :])
        args += [good[:-1], good + "0", "", good.lower(), None, 7, good[:-1] + ("1" if good[-1] != "1" else "2"), "ZZ" + good[2:], " " + good, good + " "]
        bad[fn] = args
    n = 0
    for fn, args in bad.items():
        f = getattr(U, fn)
        for a in args:
            t.count("evaluations")
            try:
                r = f(a)
                t.outcome("disturbing-call-answered")
            except Exception:
                t.outcome("disturbing-call-refused")
            n += 1
            if not probe(t, U, (fn, a)):
                break
    t.count("disturbing-calls", n)


def misc(t, U, agencies):
    disturbances(t, U)
    # wrong lengths never validate
    for n in range(0, 15):
        for fill in ("0", "9", "A"):
            s = fill * n
            for fn, good in ((U.validate_cusip, 9), (U.validate_isin, 12)):
                if n == good:
                    continue
                t.count("evaluations")
                try:
                    v = fn(s)
                except Exception:
                    v = False
                if v:
                    t.fail(f"C20|{fn.__name__}|wrong-length|validates", {"kind": fn.__name__, "id": s}, s)
                else:
                    t.outcome("wrong-length-rejected")
            # a valid id with characters appended / removed
    good_cusip = "037833100"
    good_isin = "US0378331005"
    for s in (good_cusip[:-1], good_cusip + "0", good_cusip + good_cusip[-1], " " + good_cusip):
        t.count("evaluations")
        try:
            v = U.validate_cusip(s)
        except Exception:
            v = False
        if v:
            t.fail("C20|validate_cusip|wrong-length|validates", {"kind": "validate_cusip", "id": s}, s)
    for s in (good_isin[:-1], good_isin + "5", " " + good_isin):
        t.count("evaluations")
        try:
            v = U.validate_isin(s)
        except Exception:
            v = False
        if v:
            t.fail("C20|validate_isin|wrong-length|validates", {"kind": "validate_isin", "id": s}, s)
    # unknown prefixes: every two-letter combination not in the table, completed with the right Luhn digit
    n_unknown = 0
    for a in R.ALNUM[10:]:
        for b in R.ALNUM[10:]:
            p = a + b
            if p in agencies:
                continue
            n_unknown += 1
            base = p + "037833100"
            full = base + R.isin_check(base)
            t.count("evaluations")
            try:
                v = U.validate_isin(full)
            except Exception:
                v = False
            if v:
                t.fail("C20|validate_isin|unknown-prefix|validates", {"kind": "validate_isin", "id": full}, full)
            else:
                t.outcome("unknown-prefix-rejected")
            t.count("evaluations")
            try:
                r = U.cusip2isin(good_cusip, nation=p)
            except Exception:
                continue
            t.fail("C20|cusip2isin|unknown-prefix|converted", {"kind": "cusip2isin-nation", "id": good_cusip, "nation": p}, r)
    if n_unknown < 100:
        raise HarnessError("numbering agency table implausibly large")
    # cusip2isin with every known nation
    for p in sorted(a for a in agencies if len(a) == 2):
        t.count("evaluations")
        try:
            r = U.cusip2isin(good_cusip, nation=p)
            ok = r[:2] == p and r[2:11] == good_cusip and r[11] == R.isin_check(r[:11]) and U.validate_isin(r) is True
        except Exception as e:
            r, ok = repr(e), False
        if not ok:
            t.fail("C20|cusip2isin|nation|bad-conversion", {"kind": "cusip2isin-nation", "id": good_cusip, "nation": p}, r)


def run(ctx):
    R.selfcheck()
    U = _u()
    from ofxtools.lib import NUMBERING_AGENCIES

    # four keys of the table are one letter long ("H", "R", "L", "A"): no 11-character base can start with them
    agencies = sorted(k for k in NUMBERING_AGENCIES.keys() if len(k) == 2)
    if len(agencies) < 50 or "US" not in agencies or "GB" not in agencies:
        raise HarnessError("numbering agency table implausible")
    seed = ctx.seed
    tally = Tally()
    # --- CUSIP digit sub-space
    jobs = []
    if ctx.quick:
        lead = [f"{(seed * 7 + 13 * k) % 100:02d}" for k in range(4)]
        for p in sorted(set(lead)):
            for d in range(100):
                jobs.append((p + f"{d:02d}", 4, 10))
        cusip_digits = f"all 10^6 digit bases for each leading pair in {sorted(set(lead))}"
    else:
        for d in range(10000):
            jobs.append((f"{d:04d}", 4, 100))
        cusip_digits = "all 10^8 all-digit bases"
    alljobs = [("cd", j) for j in jobs]
    # --- CUSIP variations
    seeds_c = ["03783310", "17275R10", "0*1@2#3A", "ZZZZZZZZ", "9A9A9A9A"]
    base_c = seeds_c[seed % len(seeds_c)]
    cbases = sorted(set(variations(base_c, R.CUSIP_ALPHABET, 2)) | set(variations("00000000", R.CUSIP_ALPHABET, 1)) | set(variations("#@*#@*#@", R.CUSIP_ALPHABET, 1)))
    alljobs += [("cv", cbases[i : i + 500]) for i in range(0, len(cbases), 500)]
    # --- SEDOL
    sjobs = [("digits", lo, lo + 10000) for lo in range(0, 10**6, 10000)]
    seeds_s = ["026349", "B0YBKJ", "ZZZZZZ", "B1B2B3"]
    base_s = seeds_s[seed % len(seeds_s)]
    sjobs += [("var", b) for b in sorted(set(variations(base_s, R.SEDOL_ALPHABET, 2)))]
    svar = [j for j in sjobs if j[0] == "var"]
    alljobs += [("s", [j]) for j in sjobs if j[0] == "digits"] + [("s", svar[i : i + 500]) for i in range(0, len(svar), 500)]
    # --- ISIN
    ijobs = []
    body4 = f"{(seed * 37 + 378) % 10000:04d}"
    if ctx.quick:
        for p in agencies:
            ijobs.append(("range", p, body4, 0, 1000, 10))
        for p in ("US", "GB", agencies[seed % len(agencies)]):
            for lo in range(0, 100000, 10000):
                ijobs.append(("range", p, body4, lo, lo + 10000, 100))
        isin_digits = f"every agency prefix x body {body4}00000..{body4}00999; prefixes US, GB, {agencies[seed % len(agencies)]} x all 10^5 endings"
    else:
        for p in agencies:
            for lo in range(0, 100000, 20000):
                ijobs.append(("range", p, body4, lo, lo + 20000, 100))
        isin_digits = f"every agency prefix x all 10^5 endings of body {body4}"
    seeds_i = ["US037833100", "GB000263494", "AU0000XVGZA", "ZZZZZZZZZZZ"]
    base_i = seeds_i[seed % len(seeds_i)]
    if base_i[:2] not in agencies:
        base_i = "ZA" + base_i[2:]
    ivars = [b for b in set(variations(base_i, R.ALNUM, 2)) if b[:2] in NUMBERING_AGENCIES]
    ijobs += [("var", b) for b in sorted(ivars)]
    ivar = [j for j in ijobs if j[0] == "var"]
    alljobs += [("i", [j]) for j in ijobs if j[0] == "range"] + [("i", ivar[i : i + 500]) for i in range(0, len(ivar), 500)]
    tally.merge(ctx.pmap(unified_work, alljobs, chunk=1))
    misc(tally, U, NUMBERING_AGENCIES)

    need = ["cusip-ok-%d" % d for d in range(10)] + ["isin-ok-%d" % d for d in range(10)] + ["sedol-ok-%d" % d for d in range(10)]
    need += ["cusip-corrupt-rejected", "isin-corrupt-rejected", "sedol-corrupt-rejected", "wrong-length-rejected", "unknown-prefix-rejected"]
    missing = [o for o in need if o not in tally.outcomes]
    # failures may legitimately hide some outcome classes; only complain when nothing failed
    if missing and not tally.fails:
        vacuous(tally, f"vacuous: outcomes never observed: {missing}")
    tally.sample({"cusip_base": "17275R10", "check": R.cusip_check("17275R10")})
    tally.sample({"isin_base": "AU0000XVGZA", "check": R.isin_check("AU0000XVGZA")})
    tally.sample({"cusip_base": "0*1@2#3A", "check": R.cusip_check("0*1@2#3A")})
    cov = {
        "evaluations": tally.counts.get("evaluations", 0),
        "distinct_nontrivial": tally.counts.get("evaluations", 0),
        "rule": f"CUSIP: {cusip_digits} + every base within <=2 positions of {base_c!r} over the 39-character alphabet (incl. * @ #) and "
        f"<=1 of two more; SEDOL: all 10^6 digit bases + <=2-position variations of {base_s!r} over digits+consonants; ISIN: {isin_digits} + "
        f"<=2-position variations of {base_i!r} over alphanumerics; for the variation sets and every 10th/100th digit base: completed id validates, "
        "every other check character from a 20-character set is rejected, cusip2isin/sedol2isin embed the original and validate; wrong lengths 0..14; every function x every argument class it refuses (invalid character at each position, case, length, type, check character, prefix) each followed by a re-check of 12 valid ids; "
        "all unknown two-letter prefixes; every case is a distinct identifier (all non-trivial)",
        "exhaustive": True,
        "distinct_outcomes": len(tally.outcomes),
    }
    return {"tally": tally, "coverage": cov, "assumptions": [
        "alphanumeric spaces covered to <=2-position variations around seed-chosen bases; digit sub-spaces complete as stated",
        "a CUSIP containing * @ # has no ISIN: cusip2isin may refuse it"]}


def replay(ctx, case):
    U = _u()
    from ofxtools.lib import NUMBERING_AGENCIES

    t = Tally()
    k = case["kind"]
    if k == "cusip":
        chk_cusip(t, U, case["base"], True)
    elif k in ("cusip-validate", "cusip2isin"):
        chk_cusip(t, U, case["id"][:8], True)
    elif k == "sedol":
        chk_sedol(t, U, case["base"], True)
    elif k == "sedol2isin":
        chk_sedol(t, U, case["id"][:6], True)
    elif k == "isin":
        chk_isin(t, U, case["base"], True)
    elif k == "isin-validate":
        chk_isin(t, U, case["id"][:11], True)
    else:
        misc(t, U, NUMBERING_AGENCIES)
    for sig, (n, c, d) in t.fails.items():
        print(" ", sig, d)
    return bool(t.fails)
