"""C13  Every child a model class declares can actually be built, written and read back.

Finite space, checked completely: every concrete aggregate class x every declared child and group.
Static part (vf.ref_schema reading the class dictionaries) + a construct/write/read probe per child.
"""
import warnings
import xml.etree.ElementTree as ET

from vf import ref_schema as S
from vf import universe as U
from vf.core import vacuous, HarnessError, Tally

LEVEL = "exploration"

# children the library documents as "not implemented (yet)" (Types.Unsupported) at the pinned commit; any other
# Unsupported child is a declared child that can be neither built nor read
KNOWN_UNSUPPORTED = {
    ("OFX", "presdirmsgsrqv1"), ("OFX", "presdirmsgsrsv1"), ("OFX", "presdlvmsgsrqv1"), ("OFX", "presdlvmsgsrsv1"),
    ("OFX", "loanmsgsrqv1"), ("OFX", "loanmsgsrsv1"), ("OFX", "tax1098msgsrqv1"), ("OFX", "tax1098msgsrsv1"),
    ("OFX", "taxw2msgsrqv1"), ("OFX", "taxw2msgsrsv1"), ("OFX", "tax1095msgsrqv1"), ("OFX", "tax1095msgsrsv1"),
    ("SONRQ", "ofxextension"), ("SONRS", "ofxextension"), ("STMTTRN", "imagedata"), ("STMTRS", "banktranlistp"),
    ("CCSTMTRS", "banktranlistp"), ("BANKMSGSETV1", "imageprof"), ("CREDITCARDMSGSETV1", "imageprof"),
    ("CLOSING", "imagedata"), ("CCCLOSING", "imagedata"), ("INVSTMTMSGSETV1", "imageprof"), ("MSGSETLIST", "presdirmsgset"),
    ("MSGSETLIST", "presdlvmsgset"),
}


def all_aggregate_subclasses():
    from ofxtools.models.base import Aggregate

    seen, stack = set(), [Aggregate]
    while stack:
        c = stack.pop()
        for s in c.__subclasses__():
            if s not in seen:
                seen.add(s)
                stack.append(s)
    return seen


def static_checks(t):
    import ofxtools.models as M
    from ofxtools.models.base import Aggregate

    classes = S.all_classes()
    # (1) every ALL-CAPS aggregate class defined anywhere in ofxtools.models.* is found by its tag
    for c in sorted(all_aggregate_subclasses(), key=lambda c: c.__name__):
        n = c.__name__
        if not c.__module__.startswith("ofxtools.models") or n != n.upper():
            continue
        t.count("evaluations")
        if getattr(M, n, None) is not c:
            t.fail(f"C13|{n}|class|not-found-by-tag", {"cls": n}, f"ofxtools.models.{n} is {getattr(M, n, None)!r}, class defined in {c.__module__}")
        else:
            t.outcome("class-found")
    for cls in classes:
        n = cls.__name__
        chs = S.children(cls)
        cm = {c.name: c for c in chs}
        nlelem = sum(1 for c in chs if c.kind == "lelem")
        for c in chs:
            t.count("evaluations")
            t.count("children")
            if c.kind == "unsup":
                owner = c.owner.__name__
                if (n, c.name) not in KNOWN_UNSUPPORTED and (owner, c.name) not in KNOWN_UNSUPPORTED:
                    t.fail(f"C13|{n}|{c.name}|declared-unsupported", {"cls": n, "child": c.name}, "child is declared but Unsupported: it can be neither built nor read")
                continue
            if c.kind in ("sub", "lagg"):
                tn = c.target.__name__
                if getattr(M, tn, None) is not c.target:
                    t.fail(f"C13|{n}|{c.name}|member-class-not-exported", {"cls": n, "child": c.name}, tn)
                if c.name != tn.lower():
                    t.fail(f"C13|{n}|{c.name}|member-class-name-mismatch", {"cls": n, "child": c.name}, f"attribute {c.name!r} holds {tn}: list members/sub-aggregates are matched by lower-cased class name")
            t.outcome("child-" + c.kind)
        # an ElementList has exactly one repeated-element kind and no repeated aggregates
        if nlelem and (nlelem > 1 or any(c.kind == "lagg" for c in chs)):
            t.fail(f"C13|{n}|lists|mixed-repeated-kinds", {"cls": n}, "repeated elements mixed with other repeated kinds")
        # (4) groups
        opt, req = S.declared_groups(cls)
        eff_opt = [tuple(g) for g in (cls.optionalMutexes or [])]
        eff_req = [tuple(g) for g in (cls.requiredMutexes or [])]
        for kind, groups, eff in (("optional", opt, eff_opt), ("required", req, eff_req)):
            for g in groups:
                t.count("evaluations")
                t.count("groups")
                gname = "+".join(g)
                ok = True
                if g not in eff:
                    t.fail(f"C13|{n}|group:{gname}|declared-on-a-base-but-not-in-force", {"cls": n, "group": list(g)}, f"{kind} group {list(g)} declared on a base class is not in {n}.{kind}Mutexes = {eff}")
                    ok = False
                for m in g:
                    if m not in cm:
                        t.fail(f"C13|{n}|group:{gname}|names-unknown-child", {"cls": n, "group": list(g)}, m)
                        ok = False
                    elif cm[m].kind not in ("elem", "sub"):
                        t.fail(f"C13|{n}|group:{gname}|names-repeated-child", {"cls": n, "group": list(g)}, f"{m} is {cm[m].kind}: keyword counting can never see it, the group cannot fire")
                        ok = False
                    elif cm[m].required:
                        t.fail(f"C13|{n}|group:{gname}|names-required-child", {"cls": n, "group": list(g)}, m)
                        ok = False
                if ok:
                    t.outcome("group-ok")


def lib_roundtrip_tree(inst):
    from ofxtools.models.base import Aggregate

    tree = inst.to_etree()
    with warnings.catch_warnings(record=True) as w:
        warnings.simplefilter("always")
        back = Aggregate.from_etree(tree)
    return tree, back, [str(x.message) for x in w if "UnknownTag" in x.category.__name__ or "unknown tag" in str(x.message)]


def probe_child(t, cls, c):
    n = cls.__name__
    t.count("evaluations")
    t.count("probes")
    case = {"cls": n, "child": c.name}
    term = U.min_with(cls, c)
    try:
        inst = U.build(term)
    except Exception as e:
        t.fail(f"C13|{n}|{c.name}|cannot-construct", case, f"{type(e).__name__}: {e}")
        return
    try:
        tree, back, unknown = lib_roundtrip_tree(inst)
    except Exception as e:
        t.fail(f"C13|{n}|{c.name}|write-read-raises", case, f"{type(e).__name__}: {e}")
        return
    # written under the child's OFX tag
    if c.kind in ("elem", "sub"):
        tag = S.tag_of(c.name) if c.kind == "elem" else c.target.__name__
        found = [e for e in tree if e.tag == tag]
        if len(found) != 1:
            t.fail(f"C13|{n}|{c.name}|not-written-under-its-tag", case, f"children written: {[e.tag for e in tree]}")
            return
    else:
        tag = c.target.__name__ if c.kind == "lagg" else c.name.upper()
        if not any(e.tag == tag for e in tree):
            t.fail(f"C13|{n}|{c.name}|not-written-under-its-tag", case, f"children written: {[e.tag for e in tree]}")
            return
    if unknown:
        t.fail(f"C13|{n}|{c.name}|skipped-as-unknown-when-read", case, unknown[0])
        return
    d = S.diff_terms(S.inst_to_term(inst), S.inst_to_term(back))
    if d:
        t.fail(f"C13|{n}|{c.name}|read-back-differs", case, d)
        return
    t.outcome("probe-ok-" + c.kind)


def probe_lists(t, cls):
    """classes with repeated kinds: an instance with a member of each kind and every plain child present must be
    accepted by the library's own reader"""
    n = cls.__name__
    chs = S.children(cls)
    lk = [c for c in chs if c.kind in ("lagg", "lelem")]
    if not lk:
        return
    t.count("evaluations")
    t.count("list-probes")
    term = U.MAXS(cls)
    if n == "ACCTINFO":
        pass
    case = {"cls": n, "probe": "lists"}
    try:
        inst = U.build(term)
    except Exception as e:
        t.fail(f"C13|{n}|lists|cannot-construct-full-instance", case, f"{type(e).__name__}: {e}")
        return
    try:
        tree, back, unknown = lib_roundtrip_tree(inst)
    except Exception as e:
        kind = "own-output-rejected"
        t.fail(f"C13|{n}|lists|{kind}", case, f"{type(e).__name__}: {e}")
        return
    if unknown:
        t.fail(f"C13|{n}|lists|member-skipped-as-unknown", case, unknown[0])
        return
    d = S.diff_terms(S.inst_to_term(inst), S.inst_to_term(back))
    if d:
        t.fail(f"C13|{n}|lists|read-back-differs", case, d)
        return
    # position: list members must sit where the reader's order check accepts them - also with the plain children
    # before and after them present (that is what MAXS has)
    t.outcome("lists-ok")


def work(chunk):
    from vf.core import disturb_process, touch_bases

    t = Tally()
    disturb_process()
    from vf.checks import c06

    for cls in chunk:
        touch_bases(cls)
        for c in S.children(cls):
            if c.kind == "unsup":
                continue
            probe_child(t, cls, c)
        # the same probes with the library's loggers at DEBUG (a formatting handler attached)
        with c06.verbose_logging({"loglevel": "DEBUG"}):
            for c in S.children(cls):
                if c.kind != "unsup":
                    probe_child(t, cls, c)
        probe_lists(t, cls)
        t.count("classes")
    return t


def run(ctx):
    tally = Tally()
    static_checks(tally)
    classes = S.all_classes()
    rot = ctx.seed % len(classes)
    tally.merge(ctx.pmap(work, classes[rot:] + classes[:rot]))
    if tally.counts.get("classes", 0) < 380 or tally.counts.get("children", 0) < 2000 or tally.counts.get("groups", 0) < 30:
        vacuous(tally, f"vacuous: {tally.counts}")
    tally.sample({"class": "STMTRS", "children": [repr(c) for c in S.children(S.all_classes()[0])][:3]})
    tally.sample({"probe": "BILLPAYMSGSRSV1 with one PMTMAILTRNRS member: construct, to_etree, from_etree, compare"})
    cov = {
        "evaluations": tally.counts.get("evaluations", 0),
        "distinct_nontrivial": tally.counts.get("probes", 0) + tally.counts.get("groups", 0) + tally.counts.get("list-probes", 0),
        "rule": "(every probe twice: default logging, and the library loggers at DEBUG) every concrete aggregate class (ALL-CAPS, found by its tag) x every declared child (static: member class exported, attribute name = "
        "lower-cased member class name, not Unsupported beyond the 24 documented ones) x every group declared on any base (names existing, optional, "
        "non-repeated children; in force in the class) + one construct/to_etree/from_etree probe per child on the smallest instance containing it + one "
        "full-instance probe per class with repeated kinds; non-trivial = probes and group checks (static per-child checks counted in evaluations only)",
        "classes": tally.counts.get("classes", 0),
        "children": tally.counts.get("children", 0),
        "groups": tally.counts.get("groups", 0),
        "probes": tally.counts.get("probes", 0),
        "programs": tally.counts.get("classes", 0),
        "exhaustive": True,
    }
    return {"tally": tally, "coverage": cov, "assumptions": [
        "the 24 children declared Types.Unsupported at the pinned commit are documented as not implemented and are not demanded",
        "class-specific validate_args rules are honoured through a hint table when building the smallest instance",
        "before a class is probed the introspection properties (spec, listaggregates, ...) of all its bases are read, root first"]}


def replay(ctx, case):
    import ofxtools.models as M

    t = Tally()
    cls = getattr(M, case["cls"])
    static_checks(t)
    t.fails = {k: v for k, v in t.fails.items() if f"|{case['cls']}|" in k}
    if case.get("probe") == "lists":
        probe_lists(t, cls)
    elif "child" in case:
        for c in S.children(cls):
            if c.name == case["child"] and c.kind != "unsup":
                probe_child(t, cls, c)
    for sig, (n, c, d) in sorted(t.fails.items()):
        print(" ", sig, "|", d)
    return bool(t.fails)
