"""C03  Every data element reaches the model with the value its OFX data type assigns.

For every class and every declared element child: the smallest document containing it, with that element's text set
to every lexical form of its type's lexical alphabet, rendered (XML and SGML) by the reference renderer - not by the
library - and read by OFXTree.parse().convert().  Oracle: (path, value) pairs of the model == pairs the reference type
rules compute from the document texts, both ways.  Plus the MAXS document of every class.
"""
import warnings

from vf import ref_schema as S
from vf import ref_sgml
from vf import ref_types as R
from vf import universe as U
from vf import wire
from vf.core import disturb_process
from vf.core import disturb_class
from vf.core import vacuous, HarnessError, Tally

LEVEL = "exploration"

DT_OFFS = ["", "[0]", "[-5:EST]", "[+5.30]", "[-0.30]", "[+0.30]", "[0.30]", "[-0.45]", "[+14]", "[-12]", "[-3.30:NST]", "[9.30]", "[-9.30:Any Name]", "[+05.45]", "[5]", "[-5.00]"]


_ENUMS = None


def snapshot_tokens(clsname, c):
    """tokens of this enumerated element per vf/ref_enums.json (the enumerations as declared at the pinned commit, standing
    in for the specification's), merged with what the class declares now: a token that has silently dropped out of a
    table (e.g. two string literals joined by a missing comma) must still be read"""
    global _ENUMS
    if _ENUMS is None:
        import json
        import os

        with open(os.path.join(os.path.dirname(os.path.dirname(os.path.abspath(__file__))), "ref_enums.json")) as f:
            _ENUMS = json.load(f)
    snap = _ENUMS.get(f"{clsname}.{c.name}", [])
    declared = [str(x) for x in c.params]
    return snap, [t for t in snap if t not in declared]


def lexical_forms(c, quick, seed, clsname=None):
    """[(label, text)] for element child c - every text must be valid for c per the reference rules"""
    t = c.typ
    out = []
    if t == "Bool":
        out = [("Y", "Y"), ("N", "N")]
    elif t == "Integer":
        n = c.params
        forms = ["0", "7", "-7", "+7", "007", "-0"]
        forms.append(str(10**n - 1) if n is not None else "123456789012")
        if n is not None:
            forms.append("-" + str(10**n - 1))
        for f in forms:
            if n is not None and len(f.lstrip("+-0") or "0") > n:
                continue
            out.append((f, f))
    elif t == "Decimal":
        for f in ["0", "1.5", "1,5", "-0.01", "+2", ".5", "5.", "00.10", "-,25", "1234567.891", "100", "0.00"]:
            out.append((f, f))
    elif t in ("String", "NagString"):
        n = c.params
        forms = ["a", "&amp;", "&lt;", "&gt;", "&nbsp;x", "&apos;", "&quot;", "a&amp;lt;b", "&amp;amp;", "&amp;gt;&amp;quot;", "é€", "x>y", "a  b", "0", "A&amp;B&lt;c&gt;\"'", "\u2019\u0160\u2122", "CAF\u00c3\u00a9 \u00c2\u00a35"]
        for f in forms:
            v = R.unescape(f)
            if n is not None and len(v) > n:
                continue
            if v != v.strip() or not v:
                continue
            out.append((f, f))
        if n is not None:
            out.append(("limit", "x" * n))
            if n >= 5:
                out.append(("limit-with-entities", "&amp;" + "x" * (n - 2) + "&lt;"))
    elif t == "OneOf":
        toks = [str(x) for x in c.params]
        snap, dropped = snapshot_tokens(clsname, c) if clsname else ([], [])
        if quick:
            idx = sorted(set([0, len(toks) - 1] + list(range(seed % 7, len(toks), 7))))
            toks = [toks[i] for i in idx]
        out = [(tk, tk) for tk in toks] + [("dropped-token:" + tk, tk) for tk in dropped]
    elif t == "DateTime":
        out = [("date", "20240229"), ("datetime", "20231231235959"), ("datetime-ms", "19991231235959.999")]
        for o in DT_OFFS[1:]:
            out.append(("full" + o, "20240301000015.001" + o))
            out.append(("no-ms" + o, "20230101003000" + o))
    elif t == "Time":
        out = [("time", "235959"), ("time-ms", "000000.001")]
        for o in DT_OFFS[1:]:
            out.append(("full" + o, "000015.001" + o))
            out.append(("no-ms" + o, "003000" + o))
    return out


def cdata_bytes(sterm):
    """v2 file in which every data element whose data allows it is CDATA-wrapped (several sections per document)"""
    from vf import ref_header as H

    toks, nleaves = ref_sgml.tokens(sterm)
    data = {leaf: v for k, v, leaf in toks if k == "D"}
    lo = {leaf: (False, True) for leaf in range(nleaves) if ref_sgml.can_cdata(data[leaf]) and "<" not in data[leaf] and ">" not in data[leaf]}
    return (H.render_v2(H.v2_fields(203)) + ref_sgml.render(sterm, lo, None)).encode("utf_8"), len(lo)


def run_doc(t, term, override, sig_prefix, case, forms=("xml", "sgml")):
    sterm = wire.doc(term, override)
    exp = wire.flatten_expected(term, override)
    for form in forms:
        t.count("evaluations")
        if form == "cdata":
            data, nsec = cdata_bytes(sterm)
            if nsec == 0:
                continue
        elif form == "sgml-1252":
            # a v1 file in Windows-1252, as most v1 servers send: the declared CHARSET decides what the bytes mean
            from vf import ref_header as H

            try:
                data = H.render_v1(H.v1_fields(102, encoding="USASCII", charset="1252")).encode("ascii") + ref_sgml.render(sterm, wire.sgml_leafopts(sterm), None).encode("cp1252")
            except UnicodeEncodeError:
                continue
        else:
            data = wire.to_bytes(sterm, form)
        try:
            with warnings.catch_warnings(record=True) as w:
                warnings.simplefilter("always")
                # the v1 renderings go through one OFXTree object re-used for every document of the process
                inst = wire.lib_convert_reused(data) if form.startswith("sgml") else wire.lib_convert(data)
            unknown = [str(x.message) for x in w if "nknown" in str(x.message)]
        except Exception as e:
            t.fail(f"{sig_prefix}|{form}|valid-document-refused-{type(e).__name__}", dict(case, form=form), f"{type(e).__name__}: {str(e)[:300]}")
            continue
        if type(inst).__name__ != term[0]:
            t.fail(f"{sig_prefix}|{form}|wrong-root-class", dict(case, form=form), type(inst).__name__)
            continue
        got = wire.flatten_instance(inst)
        d = wire.diff_flat(exp, got)
        if d:
            t.fail(f"{sig_prefix}|{form}|wrong-model", dict(case, form=form), d)
            continue
        if unknown:
            t.fail(f"{sig_prefix}|{form}|element-skipped-as-unknown", dict(case, form=form), unknown[0])
            continue
        t.outcome("ok-" + form)


def lexclass(c, label):
    """coarse class of a lexical form for signatures (type + feature), so that one defect gives few signatures"""
    t = c.typ
    if t in ("DateTime", "Time"):
        if "[" in label:
            off = label[label.index("[") + 1 : -1].split(":")[0]
            neg = off.startswith("-")
            frac = "." in off
            h0 = off.lstrip("+-").split(".")[0].lstrip("0") == ""
            return f"{t}:{'neg' if neg else 'pos'}{'-frac' if frac else ''}{'-hour0' if h0 and frac else ''}-offset"
        return f"{t}:{label}"
    if t in ("String", "NagString"):
        return f"String:{'entity' if '&' in label else 'limit' if label.startswith('limit') else 'plain'}"
    if t == "OneOf" and label.startswith("dropped-token:"):
        return "OneOf:token-of-the-pinned-tables-no-longer-read"
    if t == "Decimal":
        return "Decimal:" + ("comma" if "," in label else "plain")
    if t == "Integer":
        return "Integer"
    return t


def edit_and_convert_again(t, cls, clsname):
    import io

    from ofxtools.Parser import OFXTree

    for c in S.children(cls):
        if c.kind != "elem" or c.typ not in ("String", "NagString", "Integer", "Decimal"):
            continue
        forms = [f for _, f in lexical_forms(c, True, 0, clsname) if "&" not in f]
        if len(forms) < 2:
            continue
        term = U.min_with(cls, c)
        a, b = forms[0], forms[1]
        tag = S.tag_of(c.name)
        t.count("evaluations")
        case = {"cls": clsname, "child": c.name, "text": b, "edit": True}
        try:
            tree = OFXTree()
            tree.parse(io.BytesIO(wire.to_bytes(wire.doc(term, {(c.name,): a}), "xml")))
            first = tree.convert()
            leaf = next(e for e in tree.getroot().iter(tag))
            leaf.text = b
            second = tree.convert()
        except Exception as e:
            t.fail(f"C03|{clsname}.{c.name}|edit-the-tree-and-convert-again|raises-{type(e).__name__}", case, f"{type(e).__name__}: {str(e)[:200]}")
            return
        exp = R.read_value(c.typ, c.params, b)
        got = getattr(second, c.name, None)
        if S.norm_value(got) != exp or second is first:
            t.fail(f"C03|{clsname}|edit-the-tree-and-convert-again|stale-model", case, f"<{tag}> changed from {a!r} to {b!r}: model holds {got!r}")
        else:
            t.outcome("edit-ok")
        return


def work(chunk):
    t = Tally()
    disturb_process()
    for clsname, quick, seed in chunk:
        cls = U.cls_by_name(clsname)
        disturb_class(cls)
        for c in S.children(cls):
            if c.kind not in ("elem", "lelem"):
                continue
            t.count("elements")
            term = U.min_with(cls, c)
            if c.kind == "elem":
                path = (c.name,)
            else:
                idx = next(i for i, m in enumerate(term[2]) if not S._isterm(m))
                path = (("#", idx),)
            for label, text in lexical_forms(c, quick, seed, clsname):
                try:
                    R.read_value(c.typ, c.params, text)
                except R.RefValueError as e:
                    raise HarnessError(f"lexical alphabet holds a text the reference rejects: {c!r} {text!r}: {e}")
                case = {"cls": clsname, "child": c.name, "text": text}
                forms = ("xml", "sgml", "sgml-1252") if any(ord(ch) > 127 for ch in text) else ("xml", "sgml")
                run_doc(t, term, {path: text}, f"C03|{clsname}.{c.name}|{lexclass(c, label)}", case, forms=forms)
                t.count("lexical-forms")
        # an application may edit the parsed tree and convert again: the model follows the tree as it is now
        edit_and_convert_again(t, cls, clsname)
        # the MAXS document: all children at once
        try:
            run_doc(t, U.MAXS(cls), None, f"C03|{clsname}|MAXS", {"cls": clsname, "child": None, "text": None}, forms=("xml", "sgml", "cdata"))
        except Exception as e:
            t.fail(f"C03|{clsname}|MAXS|harness", {"cls": clsname}, repr(e))
        t.count("classes")
    return t


def selfcheck():
    """reference writer/reader agree on every default value of the universe"""
    R.selfcheck()
    for cls in S.all_classes():
        for c in S.children(cls):
            if c.kind in ("elem", "lelem"):
                for v in U.alphabet(c):
                    txt = R.write_value(c.typ, v)
                    if R.read_value(c.typ, c.params, txt) != S.norm_value(v):
                        raise HarnessError(f"reference writer/reader disagree on {c!r} {v!r}: {txt!r} -> {R.read_value(c.typ, c.params, txt)} vs {S.norm_value(v)}")


def run(ctx):
    selfcheck()
    classes = S.all_classes()
    jobs = [(c.__name__, ctx.quick, ctx.seed) for c in classes]
    jobs.sort(key=lambda j: -len(S.children(U.cls_by_name(j[0]))))
    tally = ctx.pmap(work, jobs, chunk=1)
    if tally.counts.get("elements", 0) < 1200 or tally.counts.get("classes", 0) != len(classes):
        vacuous(tally, f"vacuous: {tally.counts}")
    tally.sample({"cls": "STMTTRN", "child": "dtposted", "text": "20240301000015.001[-3.30:NST]", "expected_ms": R.read_datetime("20240301000015.001[-3.30:NST]")})
    tally.sample({"cls": "STMTTRN", "child": "name", "text": "a&amp;lt;b", "expected": "a&lt;b"})
    cov = {
        "evaluations": tally.counts.get("evaluations", 0),
        "distinct_nontrivial": tally.counts.get("lexical-forms", 0),
        "rule": "every class x every declared data element (and repeated element) x every lexical form of its type: Bool Y/N; Integer 0,7,-7,+7,007,-0,limit; "
        "Decimal 12 forms incl. comma separator, signs, bare separator sides; String 15 forms incl. each entity alone, doubly escaped entities, non-ASCII, the limit; "
        + ("OneOf first, last and every 7th token; " if ctx.quick else "OneOf every token; ") +
        "DateTime/Time 3 plain notations + {full, offset-without-ms} x 10 offsets - in the smallest document containing the element, rendered as v2 XML and v1 SGML; per class one document converted, its tree edited in place, converted again; "
        "(end tags omitted) by the reference renderer; + the MAXS document of every class (also with every eligible data element CDATA-wrapped); distinct_nontrivial = (element, lexical form) pairs",
        "elements": tally.counts.get("elements", 0),
        "classes": tally.counts.get("classes", 0),
        "exhaustive": True,
    }
    return {"tally": tally, "coverage": cov, "assumptions": ["the v1 renderings are read through one re-used OFXTree object per worker, the others through a fresh one", "documents are rendered by vf.ref_sgml/ref_header, not by the library; reference type rules trusted (self-checked against the writer)",
        "vf/ref_enums.json (token tables of the pinned tree) stands in for the specification's enumerations: every token in it must still be read; tokens added since are not objected to"]}


def replay(ctx, case):
    t = Tally()
    cls = U.cls_by_name(case["cls"])
    if case.get("child"):
        c = S.child_map(cls)[case["child"]]
        term = U.min_with(cls, c)
        path = (c.name,) if c.kind == "elem" else (("#", next(i for i, m in enumerate(term[2]) if not S._isterm(m))),)
        run_doc(t, term, {path: case["text"]}, "C03|replay", case)
        print(wire.to_bytes(wire.doc(term, {path: case["text"]}), case.get("form", "xml")).decode())
    else:
        run_doc(t, U.MAXS(cls), None, "C03|replay", case)
    for sig, (n, c_, d) in sorted(t.fails.items()):
        print(" ", sig, "|", d)
    return bool(t.fails)
