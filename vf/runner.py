"""vf.runner: `check <ID> <quick|thorough>` / `check <ID> --replay <file>`.

Exit 0: property held on everything explored (KNOWN-FINDING lines possible).
Exit 1: at least one `VIOLATION property=<id> replay=<path>` line.
Exit 2: harness error (self-check failed, crash) - no verdict.
"""
import hashlib
import importlib
import json
import os
import re
import shutil
import subprocess
import sys
import tempfile
import time
import traceback

VERIF = os.path.dirname(os.path.dirname(os.path.abspath(__file__)))
# evidence/ and replays/ go to /verif unless VERIF_OUT redirects them (used when a check is run against a scratch
# copy of the repository, so that the committed evidence is never overwritten by such a run)
OUT = os.environ.get("VERIF_OUT") or VERIF


def _setup_private_env():
    """Private XDG/HOME roots *before* ofxtools is imported (ofxtools.config reads them at import)."""
    root = tempfile.mkdtemp(prefix="vf-")
    for var, sub in (
        ("XDG_DATA_HOME", "data"),
        ("XDG_CONFIG_HOME", "config"),
        ("XDG_CACHE_HOME", "cache"),
        ("HOME", "home"),
    ):
        p = os.path.join(root, sub)
        os.makedirs(p, exist_ok=True)
        os.environ[var] = p
    os.environ["VF_TMPROOT"] = root
    return root


def load_known():
    path = os.path.join(VERIF, "known_findings.json")
    if not os.path.exists(path):
        return {}
    with open(path) as f:
        data = json.load(f)
    out = {}
    for ent in data.get("findings", []):
        out.setdefault(ent["property"], {})[ent["signature"]] = ent.get("what", "")
    return out


def _safe(sig):
    s = re.sub(r"[^A-Za-z0-9_.=+-]+", "_", sig)[:120]
    return s + "-" + hashlib.sha1(sig.encode()).hexdigest()[:8]


def validate_evidence(path):
    schema = "/root/.vp/EVIDENCE.schema.json"
    if not os.path.exists(schema) or not shutil.which("python3-vt"):
        return True, "schema or validator not present; skipped"
    code = (
        "import json,sys,jsonschema;"
        "jsonschema.validate(json.load(open(sys.argv[1])), json.load(open(sys.argv[2])))"
    )
    r = subprocess.run(
        ["python3-vt", "-c", code, path, schema], capture_output=True, text=True
    )
    return r.returncode == 0, r.stderr[-2000:]


def main(argv):
    if len(argv) < 2:
        print(__doc__)
        return 2
    pid = argv[0].upper()
    replay_path = None
    if argv[1] == "--replay":
        replay_path = argv[2]
        tier = "quick"
    else:
        tier = argv[1]
    if tier not in ("quick", "thorough"):
        print("tier must be quick or thorough")
        return 2
    env_tier = os.environ.get("VERIF_TIER")
    if env_tier and env_tier in ("quick", "thorough") and replay_path is None and env_tier != tier:
        # the command line is what MANIFEST registers; the variable may only confirm it
        print(f"note: VERIF_TIER={env_tier} ignored, running tier {tier} as registered")
    try:
        seed = int(os.environ.get("VERIF_SEED", "0") or 0)
    except ValueError:
        seed = 0
    workers = int(os.environ.get("VERIF_WORKERS", "0") or 0) or (os.cpu_count() or 4)

    tmproot = _setup_private_env()
    t0 = time.time()
    try:
        from vf.core import Ctx, HarnessError, Tally, jsonable

        ctx = Ctx(pid, tier, seed, tmproot, workers)
        mod = importlib.import_module(f"vf.checks.{pid.lower()}")
        if replay_path is not None:
            with open(replay_path) as f:
                rep = json.load(f)
            from vf.core import unjson

            print(f"replaying {replay_path}\n signature: {rep.get('signature')}")
            reproduced = mod.replay(ctx, unjson(rep["case"]))
            print("REPRODUCED" if reproduced else "not reproduced")
            return 1 if reproduced else 0
        try:
            res = mod.run(ctx)
        except HarnessError as e:
            print(f"HARNESS-ERROR property={pid}: {e}")
            return 2
        except Exception as e:
            from vf.core import library_exception_tally

            t = library_exception_tally(pid, e)
            if t is None:
                raise
            res = {"tally": t, "coverage": {"evaluations": 1, "distinct_nontrivial": 2, "rule": "the check could not run: valid use of the library raised (see violations)",
                                            "states": 1, "transitions": 1, "traces_validated_against_impl": 0, "samples": ["(aborted)"]}}
        tally = res["tally"]
        known = load_known().get(pid, {})
        known_hit, unknown = [], []
        for sig in sorted(tally.fails):
            (known_hit if sig in known else unknown).append(sig)
        wall = time.time() - t0
        cov = dict(res.get("coverage", {}))
        cov.setdefault("samples", tally.samples[:4] or ["(none recorded)"])
        cov["samples"] = jsonable(cov["samples"])
        cov["known_findings_met"] = known_hit
        cov["failing_cases_total"] = sum(v[0] for v in tally.fails.values())
        cov["counters"] = {k: tally.counts[k] for k in sorted(tally.counts)}
        evidence = {
            "property_id": pid,
            "tier": tier,
            "seed": seed,
            "level": mod.LEVEL,
            "coverage": cov,
            "assumptions": res.get("assumptions", []),
            "wall_s": round(wall, 2),
            "violations": len(unknown),
        }
        os.makedirs(os.path.join(OUT, "evidence"), exist_ok=True)
        epath = os.path.join(OUT, "evidence", f"{pid}.json")
        with open(epath, "w") as f:
            json.dump(evidence, f, indent=1, sort_keys=True, ensure_ascii=True)
            f.write("\n")
        ok, err = validate_evidence(epath)
        if not ok:
            print(f"HARNESS-ERROR property={pid}: evidence does not validate: {err}")
            return 2
        for sig in known_hit:
            n = tally.fails[sig][0]
            print(f"KNOWN-FINDING: property={pid} {sig} ({n} case(s)): {known[sig]}")
        rc = 0
        if unknown:
            rdir = os.path.join(OUT, "replays", pid)
            os.makedirs(rdir, exist_ok=True)
            for sig in unknown[:40]:
                n, case, detail = tally.fails[sig]
                rpath = os.path.join(rdir, _safe(sig) + ".json")
                with open(rpath, "w") as f:
                    json.dump(
                        {
                            "property": pid,
                            "signature": sig,
                            "count": n,
                            "detail": detail,
                            "case": jsonable(case),
                            "tier": tier,
                            "seed": seed,
                        },
                        f,
                        indent=1,
                    )
                print(f"VIOLATION property={pid} replay={rpath}")
                print(f"   signature={sig} cases={n} detail={detail[:300]!r}")
            if len(unknown) > 40:
                print(f"   ... and {len(unknown) - 40} more distinct signatures")
            rc = 1
        summ = ", ".join(
            f"{k}={cov[k]}"
            for k in ("evaluations", "distinct_nontrivial", "states", "transitions", "exhaustive")
            if k in cov
        )
        print(
            f"{pid} {tier} seed={seed}: {summ}; known={len(known_hit)} violations={len(unknown)} "
            f"wall={wall:.1f}s"
        )
        return rc
    except Exception:
        traceback.print_exc()
        print(f"HARNESS-ERROR property={pid}: crash (see traceback)")
        return 2
    finally:
        shutil.rmtree(tmproot, ignore_errors=True)


if __name__ == "__main__":
    rc = main(sys.argv[1:])
    sys.stdout.flush()
    os._exit(rc) if False else sys.exit(rc)
