"""Reference reading of the model definitions (E6 ref_schema).

Reads the class `__dict__`s along the MRO directly - not through Aggregate.spec/_superdict/listaggregates,
which are under test - and provides an independent validator, an instance -> term walker and a deep comparer.

Child kinds: "elem" (data element), "sub" (sub-aggregate), "lagg" (repeated aggregate), "lelem" (repeated element),
"unsup" (declared but unsupported).
"""
import datetime
import decimal

from vf import ref_types as R

ALIASES = {"yld": "YIELD", "frm": "FROM"}  # python attribute -> OFX tag, where they differ


def T():
    from ofxtools import Types

    return Types


class Child:
    __slots__ = ("name", "kind", "conv", "required", "typ", "params", "target", "owner")

    def __repr__(self):
        return f"<{self.kind} {self.name} {self.typ} {self.params} req={self.required}>"


def _classify(name, v, owner):
    Ty = T()
    c = Child()
    c.name, c.owner, c.conv = name, owner, v
    c.required = bool(getattr(v, "required", False))
    c.target = None
    c.params = None
    if isinstance(v, Ty.Unsupported):
        c.kind, c.typ = "unsup", "Unsupported"
        return c
    if isinstance(v, Ty.ListAggregate):
        c.kind, c.typ, c.target = "lagg", "ListAggregate", v.__type__
        return c
    if isinstance(v, Ty.SubAggregate):
        c.kind, c.typ, c.target = "sub", "SubAggregate", v.__type__
        return c
    inner = v
    if isinstance(v, Ty.ListElement):
        c.kind = "lelem"
        inner = v.converter
    else:
        c.kind = "elem"
    c.typ = type(inner).__name__
    if c.typ in ("String", "NagString"):
        c.params = inner.length
    elif c.typ == "Integer":
        c.params = inner.length
    elif c.typ == "Decimal":
        q = inner.scale
        c.params = None if q is None else -q.as_tuple().exponent
    elif c.typ == "OneOf":
        c.params = tuple(inner.valid)
    return c


_children_cache = {}


def children(cls):
    """ordered declared children of a model class: attributes of the bases first (MRO reversed), a re-declaration
    in a subclass replaces the value but keeps the position"""
    if cls in _children_cache:
        return _children_cache[cls]
    Ty = T()
    out = {}
    for base in reversed(cls.__mro__):
        for k, v in vars(base).items():
            if isinstance(v, (Ty.Element, Ty.Unsupported)):
                out[k] = _classify(k, v, base)
            elif k in out:
                # a non-descriptor attribute shadows an inherited declaration
                del out[k]
    res = list(out.values())
    _children_cache[cls] = res
    return res


def child_map(cls):
    return {c.name: c for c in children(cls)}


def declared_groups(cls):
    """every optionalMutexes / requiredMutexes list found on ANY base (a mixin's group that attribute lookup shadows
    is still declared)  -> (optional_groups, required_groups) as lists of tuples"""
    opt, req = [], []
    for base in cls.__mro__:
        d = vars(base)
        for g in d.get("optionalMutexes", []) or []:
            if tuple(g) not in opt:
                opt.append(tuple(g))
        for g in d.get("requiredMutexes", []) or []:
            if tuple(g) not in req:
                req.append(tuple(g))
    return opt, req


_all = None


def all_classes():
    """concrete aggregate classes: ALL-CAPS names exported by ofxtools.models that are the class of that name"""
    global _all
    if _all is None:
        import ofxtools.models as M
        from ofxtools.models.base import Aggregate

        out = []
        for n in sorted(dir(M)):
            o = getattr(M, n)
            if isinstance(o, type) and issubclass(o, Aggregate) and n == n.upper() and o.__name__ == n and n not in ("",):
                out.append(o)
        _all = out
    return _all


def tag_of(attr):
    return ALIASES.get(attr, attr.upper())


# ---------------------------------------------------------------------------------------------
# instance -> term
# ---------------------------------------------------------------------------------------------
def inst_to_term(inst):
    """(CLASSNAME, {attr: value-or-term}, [list members]) read from the instance's own storage"""
    cls = type(inst)
    kw = {}
    store = vars(inst)
    for c in children(cls):
        if c.kind in ("elem", "sub"):
            v = store.get(c.name)
            if v is None:
                continue
            kw[c.name] = inst_to_term(v) if c.kind == "sub" else v
    members = []
    for m in list.__iter__(inst):
        members.append(inst_to_term(m) if _is_agg(m) else m)
    return (cls.__name__, kw, members)


def _is_agg(x):
    from ofxtools.models.base import Aggregate

    return isinstance(x, Aggregate)


def norm_value(v):
    """value -> comparable key per the property's equality: date-times as instants to the ms, decimals by
    (sign, digits, exponent), strings exactly, python type included"""
    if isinstance(v, bool):
        return ("bool", v)
    if isinstance(v, int):
        return ("int", v)
    if isinstance(v, str):
        return ("str", v)
    if isinstance(v, decimal.Decimal):
        return ("dec",) + tuple(R.pydecimal_triple(v))
    if isinstance(v, datetime.datetime):
        if v.utcoffset() is None:
            return ("naive-datetime", v.isoformat())
        us = R.pydt_to_us(v)
        return ("dt", (us + 500) // 1000)  # equal as instants to the millisecond
    if isinstance(v, datetime.time):
        if v.utcoffset() is None:
            return ("naive-time", v.isoformat())
        us = R.pytime_to_us(v)
        return ("tm", ((us + 500) // 1000) % 86400000)
    return ("other", repr(v))


def term_key(term):
    name, kw, members = term
    return (
        name,
        tuple(sorted((k, term_key(v) if isinstance(v, tuple) and len(v) == 3 and isinstance(v[1], dict) else norm_value(v)) for k, v in kw.items())),
        tuple(term_key(m) if isinstance(m, tuple) and len(m) == 3 and isinstance(m[1], dict) else norm_value(m) for m in members),
    )


def diff_terms(a, b, path=""):
    """first difference between two terms as text, or None"""
    an, akw, am = a
    bn, bkw, bm = b
    if an != bn:
        return f"{path}: class {an} != {bn}"
    for k in sorted(set(akw) | set(bkw)):
        if k not in akw:
            return f"{path}/{k}: absent in first, {_short(bkw[k])} in second"
        if k not in bkw:
            return f"{path}/{k}: {_short(akw[k])} in first, absent in second"
        x, y = akw[k], bkw[k]
        xt, yt = _isterm(x), _isterm(y)
        if xt != yt:
            return f"{path}/{k}: aggregate vs element"
        if xt:
            d = diff_terms(x, y, f"{path}/{k}")
            if d:
                return d
        elif norm_value(x) != norm_value(y):
            return f"{path}/{k}: {x!r} != {y!r}"
    if len(am) != len(bm):
        return f"{path}: {len(am)} list members != {len(bm)} ({[_mname(m) for m in am]} vs {[_mname(m) for m in bm]})"
    for i, (x, y) in enumerate(zip(am, bm)):
        xt, yt = _isterm(x), _isterm(y)
        if xt != yt:
            return f"{path}[{i}]: aggregate vs element"
        if xt:
            d = diff_terms(x, y, f"{path}[{i}]")
            if d:
                return d
        elif norm_value(x) != norm_value(y):
            return f"{path}[{i}]: {x!r} != {y!r}"
    return None


def _isterm(x):
    return isinstance(x, tuple) and len(x) == 3 and isinstance(x[1], dict)


def _mname(m):
    return m[0] if _isterm(m) else repr(m)


def _short(x):
    return x[0] if _isterm(x) else repr(x)


def deep_equal(inst_a, inst_b):
    return diff_terms(inst_to_term(inst_a), inst_to_term(inst_b))


# ---------------------------------------------------------------------------------------------
# validator
# ---------------------------------------------------------------------------------------------
def value_ok(c, v):
    """does python value v satisfy the declared type and limits of element child c?  -> None or text"""
    t = c.typ
    if t == "Bool":
        return None if isinstance(v, bool) else f"{v!r} is not a bool"
    if t in ("String", "NagString"):
        if not isinstance(v, str):
            return f"{v!r} is not a str"
        if t == "String" and c.params is not None and len(v) > c.params:
            return f"string of length {len(v)} exceeds {c.params}"
        return None
    if t == "OneOf":
        return None if v in c.params else f"{v!r} not one of the {len(c.params)} tokens"
    if t == "Integer":
        if not isinstance(v, int) or isinstance(v, bool):
            return f"{v!r} is not an int"
        if c.params is not None and abs(v) >= 10 ** c.params:
            return f"{v} has more than {c.params} digits"
        return None
    if t == "Decimal":
        if not isinstance(v, decimal.Decimal):
            return f"{v!r} is not a Decimal"
        if c.params is not None and v.is_finite() and v.as_tuple().exponent != -c.params:
            return f"{v} does not have {c.params} decimal places"
        return None
    if t == "DateTime":
        return None if isinstance(v, datetime.datetime) and v.utcoffset() is not None else f"{v!r} is not an aware datetime"
    if t == "Time":
        return None if isinstance(v, datetime.time) and v.utcoffset() is not None else f"{v!r} is not an aware time"
    return f"unknown type {t}"


def validate(inst, path=""):
    """independent validation of an instance against everything its class declares; -> list of problems"""
    probs = []
    cls = type(inst)
    store = vars(inst)
    chs = children(cls)
    cm = {c.name: c for c in chs}
    for c in chs:
        if c.kind in ("elem", "sub"):
            v = store.get(c.name)
            if v is None:
                if c.required:
                    probs.append(f"{path}/{cls.__name__}.{c.name}: required child missing")
                continue
            if c.kind == "sub":
                if not isinstance(v, c.target):
                    probs.append(f"{path}/{cls.__name__}.{c.name}: {type(v).__name__} is not a {c.target.__name__}")
                else:
                    probs += validate(v, f"{path}/{cls.__name__}")
            else:
                p = value_ok(c, v)
                if p:
                    probs.append(f"{path}/{cls.__name__}.{c.name}: {p}")
    opt, req = declared_groups(cls)
    for g in opt:
        n = sum(1 for m in g if m in cm and cm[m].kind in ("elem", "sub") and store.get(m) is not None)
        if n > 1:
            probs.append(f"{path}/{cls.__name__}: {n} members of at-most-one group {g}")
    for g in req:
        n = sum(1 for m in g if m in cm and cm[m].kind in ("elem", "sub") and store.get(m) is not None)
        if n != 1:
            probs.append(f"{path}/{cls.__name__}: {n} members of exactly-one group {g}")
    lkinds = {c.target: c for c in chs if c.kind == "lagg"}
    lelems = [c for c in chs if c.kind == "lelem"]
    for i, m in enumerate(list.__iter__(inst)):
        if _is_agg(m):
            if type(m) not in lkinds:
                probs.append(f"{path}/{cls.__name__}[{i}]: {type(m).__name__} is not a permitted list member")
            else:
                probs += validate(m, f"{path}/{cls.__name__}[{i}]")
        else:
            if not lelems:
                probs.append(f"{path}/{cls.__name__}[{i}]: element member {m!r} in a class without repeated elements")
            else:
                p = value_ok(lelems[0], m)
                if p:
                    probs.append(f"{path}/{cls.__name__}[{i}]: {p}")
    return probs


# ---------------------------------------------------------------------------------------------
# class-specific rules of the OFX specification that the classes enforce in validate_args() - written down here from the
# specification text quoted in those classes (independent of their code), for term-level validity
# ---------------------------------------------------------------------------------------------
def _present(kw, name):
    return kw.get(name) is not None


def custom_problems(name, kw, members):
    """problems of the (class name, keyword children, list members) combination under the class-specific rules"""
    kinds = [_mname(m) for m in members]
    present = [k for k, v in kw.items() if v is not None]
    probs = []
    at_least_one = {"MSGSETCORE", "MFACHALLENGERS", "CONTRIBINFO", "MSGSETLIST", "TAX1099MSGSRQV1", "TAX1099MSGSRSV1", "TAX1099MSGSETV1", "ACCTINFO"}
    if name in at_least_one and not members:
        probs.append(f"{name}: one or more members required")
    if name == "TAX1099RS" and not any(k.startswith("TAX1099") for k in kinds):
        probs.append("TAX1099RS: at least one tax form required")
    if name == "ACCTINFO":
        for k in sorted(set(kinds)):
            if kinds.count(k) > 1:
                probs.append(f"ACCTINFO: more than one {k}")
    if name == "OFX":
        sides = {k[-4:-2] for k in present}
        if len(sides) > 1:
            probs.append("OFX: request and response message sets mixed")
    if name == "SONRQ":
        idpw = _present(kw, "userid") and _present(kw, "userpass")
        anyidpw = _present(kw, "userid") or _present(kw, "userpass")
        key = _present(kw, "userkey")
        if not (idpw or key) or (anyidpw and key):
            probs.append("SONRQ: either USERID and USERPASS, or USERKEY, not both")
    if name == "CONTRIBSECURITY":
        src = [k for k in present if k != "secid"]
        if not src:
            probs.append("CONTRIBSECURITY: at least one source required")
        if len({k[-3:] for k in src}) > 1:
            probs.append("CONTRIBSECURITY: percentages and amounts mixed")
    if name == "EXTDPMT" and not _present(kw, "extdpmtdsc") and "EXTDPMTINV" not in kinds:
        probs.append("EXTDPMT: EXTDPMTDSC or EXTDPMTINV required")
    if name == "EXTDPAYEE" and _present(kw, "payeeid") and not (_present(kw, "idscope") and _present(kw, "name")):
        probs.append("EXTDPAYEE: PAYEEID requires IDSCOPE and NAME")
    if name == "TAX1099MISC_V100" and _present(kw, "sttaxwh") and not _present(kw, "payerstate"):
        probs.append("TAX1099MISC_V100: PAYERSTATE required with STTAXWH")
    if name == "TAX1099R_V100" and not _present(kw, "irasepsimp") and any(_present(kw, k) for k in ("grossdist", "taxamt", "fedtaxwh", "sttaxwh", "lcltaxwh")):
        probs.append("TAX1099R_V100: IRASEPSIMP required with the amounts")
    return probs


CUSTOM_CLASSES = ["MSGSETCORE", "MFACHALLENGERS", "CONTRIBINFO", "MSGSETLIST", "TAX1099MSGSRQV1", "TAX1099MSGSRSV1", "TAX1099MSGSETV1", "ACCTINFO", "TAX1099RS", "OFX", "SONRQ",
                  "CONTRIBSECURITY", "EXTDPMT", "EXTDPAYEE", "TAX1099R_V100", "TAX1099MISC_V100"]


def term_problems(term, path="", custom=True):
    """validity of a model term (class name, {child: value or term}, [members]) under everything the class declares
    (presence, groups, member kinds) and the class-specific rules; element values are taken as valid"""
    name, kw, members = term
    cls = getattr(__import__("ofxtools.models", fromlist=["x"]), name)
    chs = children(cls)
    cm = {c.name: c for c in chs}
    probs = []
    for k, v in kw.items():
        if k not in cm or cm[k].kind not in ("elem", "sub"):
            probs.append(f"{path}/{name}.{k}: not a declared single child")
        elif v is not None and cm[k].kind == "sub":
            if not _isterm(v) or v[0] != cm[k].target.__name__:
                probs.append(f"{path}/{name}.{k}: wrong aggregate")
            else:
                probs += term_problems(v, f"{path}/{name}", custom)
    for c in chs:
        if c.kind in ("elem", "sub") and c.required and kw.get(c.name) is None:
            probs.append(f"{path}/{name}.{c.name}: required child missing")
    opt, req = declared_groups(cls)
    for g in opt:
        n = sum(1 for m in g if m in cm and cm[m].kind in ("elem", "sub") and kw.get(m) is not None)
        if n > 1:
            probs.append(f"{path}/{name}: {n} members of at-most-one group {g}")
    for g in req:
        n = sum(1 for m in g if m in cm and cm[m].kind in ("elem", "sub") and kw.get(m) is not None)
        if n != 1:
            probs.append(f"{path}/{name}: {n} members of exactly-one group {g}")
    lkinds = {c.target.__name__ for c in chs if c.kind == "lagg"}
    has_lelem = any(c.kind == "lelem" for c in chs)
    for i, m in enumerate(members):
        if _isterm(m):
            if m[0] not in lkinds:
                probs.append(f"{path}/{name}[{i}]: {m[0]} is not a permitted list member")
            else:
                probs += term_problems(m, f"{path}/{name}[{i}]", custom)
        elif not has_lelem:
            probs.append(f"{path}/{name}[{i}]: element member in a class without repeated elements")
    if custom:
        probs += [f"{path}/{p}" for p in custom_problems(name, kw, members)]
    return probs
