"""Reference check-digit algorithms (CUSIP, SEDOL, ISIN) in integer arithmetic, from the published definitions."""

CUSIP_ALPHABET = "0123456789ABCDEFGHIJKLMNOPQRSTUVWXYZ*@#"
_CVAL = {c: i for i, c in enumerate(CUSIP_ALPHABET)}
SEDOL_ALPHABET = "0123456789BCDFGHJKLMNPQRSTVWXYZ"
ALNUM = "0123456789ABCDEFGHIJKLMNOPQRSTUVWXYZ"
_AVAL = {c: i for i, c in enumerate(ALNUM)}


def cusip_check(base):
    """modulus 10 double-add-double over the 8 base characters; positions 2,4,6,8 are doubled"""
    assert len(base) == 8
    total = 0
    for pos, ch in enumerate(base, start=1):
        v = _CVAL[ch]
        if pos % 2 == 0:
            v *= 2
        total += v // 10 + v % 10
    return str((10 - total % 10) % 10)


def sedol_check(base):
    assert len(base) == 6
    w = (1, 3, 1, 7, 3, 9)
    total = sum(_AVAL[c] * w[i] for i, c in enumerate(base))
    return str((10 - total % 10) % 10)


def isin_check(base):
    """Luhn over the digit string obtained by expanding letters to two digits (A=10..Z=35); the rightmost
    digit of the expanded base is doubled."""
    assert len(base) == 11
    digits = []
    for c in base:
        v = _AVAL[c]
        if v >= 10:
            digits.append(v // 10)
            digits.append(v % 10)
        else:
            digits.append(v)
    total = 0
    dbl = True
    for d in reversed(digits):
        if dbl:
            d *= 2
            total += d // 10 + d % 10
        else:
            total += d
        dbl = not dbl
    return str((10 - total % 10) % 10)


def selfcheck():
    # well-known identifiers
    assert cusip_check("03783310") == "0"  # Apple 037833100
    assert cusip_check("17275R10") == "2"  # Cisco 17275R102
    assert cusip_check("38259P50") == "8"  # Google 38259P508
    assert sedol_check("026349") == "4"  # BAE 0263494
    assert sedol_check("B0YBKJ") == "7"
    assert isin_check("US037833100") == "5"  # US0378331005
    assert isin_check("GB000263494") == "6"  # GB0002634946
    assert isin_check("AU0000XVGZA") == "3"  # AU0000XVGZA3
