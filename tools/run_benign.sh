#!/bin/bash
V=${VERIF_DIR:-$(cd "$(dirname "$(readlink -f "$0")")/.." && pwd)}
# usage: run_benign.sh [tier] [id-glob]  -- behaviour-preserving changes (benign/<n>/patch.diff): every check must stay silent.
# For each patch: scratch copy of /repo + patch, test suite (must pass), then all 20 checks; writes benign/RESULTS-<tier>.md
TIER=${1:-quick}; GLOB=${2:-*}
cd $V/benign || exit 1
OUT=$(mktemp -d /tmp/benrun-XXXXXX)
for d in $GLOB/; do
  bid=${d%/}; [ -f "$bid/patch.diff" ] || continue
  D=$(mktemp -d /tmp/ben-XXXXXX)
  rsync -a --exclude .git /repo/ "$D/"
  if ! (cd "$D" && patch -p1 -s --no-backup-if-mismatch < "$V/benign/$bid/patch.diff"); then echo "$bid PATCH-FAILED" > "$OUT/$bid.res"; rm -rf "$D"; continue; fi
  if [ -z "$SKIP_TESTS" ]; then
    T=$(cd "$D" && PYTHONPATH="$D" /venv/bin/python -m pytest -q -p no:cacheprovider -n 16 -x 2>&1 | tail -1)
  else T="(tests skipped)"; fi
  : > "$OUT/$bid.res"
  for id in ${CHECKS:-C01 C02 C03 C04 C05 C06 C07 C08 C09 C10 C11 C12 C13 C14 C15 C16 C17 C18 C19 C20}; do
    VERIF_REPO="$D" VERIF_OUT="$D/.vfout" $V/check "$id" "$TIER" > "$OUT/$bid.$id.log" 2>&1
    rc=$?
    if [ $rc != 0 ]; then echo "$id rc=$rc $(grep -m1 -E 'VIOLATION|signature=|HARNESS' "$OUT/$bid.$id.log" | cut -c1-200)" >> "$OUT/$bid.res"; fi
  done
  echo "$bid tests: $T ; alarms: $(wc -l < "$OUT/$bid.res")"
  rm -rf "$D"
done
{
echo "# Behaviour-preserving changes vs. all 20 checks (tier: $TIER, $(date -u +%F))"
echo
echo "| change | alarms |"
echo "|---|---|"
for f in "$OUT"/*.res; do
  bid=$(basename "$f" .res)
  if [ -s "$f" ]; then echo "| $bid | $(tr '\n' ';' < "$f") |"; else echo "| $bid | none (${CHECKS:-all 20 checks}: exit 0) |"; fi
done
} > ${RESULTS:-$V/benign/RESULTS-$TIER.md}
cat ${RESULTS:-$V/benign/RESULTS-$TIER.md}
rm -rf "$OUT"
