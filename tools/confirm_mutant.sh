#!/bin/bash
# usage: confirm_mutant.sh <patch.diff> <demo.py>
# confirms: demo passes on /repo as is; with the patch the demo fails and the repository's tests still pass
P=$(readlink -f "$1"); DEMO=$(readlink -f "$2")
D=$(mktemp -d /tmp/mutc-XXXXXX)
rsync -a --exclude .git --exclude '*.diff' --exclude 'demo*.py' --exclude 'meta*.json' /repo/ "$D/"
cp "$DEMO" "$D/_demo.py"
(cd "$D" && PYTHONPATH="$D" /venv/bin/python _demo.py >/dev/null 2>&1); a=$?
if ! (cd "$D" && patch -p1 -s --no-backup-if-mismatch < "$P"); then echo "PATCH FAILED"; rm -rf "$D"; exit 3; fi
(cd "$D" && PYTHONPATH="$D" /venv/bin/python _demo.py >/dev/null 2>&1); b=$?
rm -f "$D/_demo.py"
T=$(cd "$D" && env -u OFXTOOLS_VERIF PYTHONPATH="$D" /venv/bin/python -m pytest -q -p no:cacheprovider -n 8 2>&1 | tail -1)
rm -rf "$D"
echo "demo_clean_rc=$a demo_patched_rc=$b tests: $T"
[ "$a" = 0 ] && [ "$b" != 0 ] && echo "$T" | grep -q "3592 passed" && echo CONFIRMED || echo NOT-CONFIRMED
