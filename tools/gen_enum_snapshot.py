#!/usr/bin/env python3
"""Writes vf/ref_enums.json: the token set of every enumerated element (CLASS.child -> [tokens]) as declared at the
pinned commit (after the fix: commits).  It stands in for the OFX specification's enumerations: C03 requires that every
token listed here is still read (tokens ADDED later are not objected to).  Run with: PYTHONPATH=/repo:/verif /venv/bin/python tools/gen_enum_snapshot.py"""
import json, os, sys
sys.path.insert(0, os.path.dirname(os.path.dirname(os.path.abspath(__file__))))
from vf import ref_schema as S
out = {}
for cls in S.all_classes():
    for c in S.children(cls):
        if c.kind in ("elem", "lelem") and c.typ == "OneOf":
            out[f"{cls.__name__}.{c.name}"] = [str(x) for x in c.params]
json.dump(out, open(os.path.join(os.path.dirname(os.path.dirname(os.path.abspath(__file__))), "vf", "ref_enums.json"), "w"), sort_keys=True, separators=(",", ":"))
print(len(out), "enumerated elements,", sum(len(v) for v in out.values()), "tokens")
