#!/bin/bash
# usage: wave.sh <worktree-dir> <PID> <first-seeded-number>  -- for patch1..3: confirm+store as <PID>-<n>, then run the property's check
W=$1; PID=$2; N=$3
for k in 1 2 3 4; do
  [ -f $W/patch$k.diff ] || continue
  SID=$PID-$N; N=$((N+1))
  /verif/tools/keep_mutant.sh $W $k $SID | tr '\n' ' '; echo
  if [ -d /verif/seeded/$SID ]; then
    LINES_OUT=3 /verif/tools/mutant.sh /verif/seeded/$SID/patch.diff $PID quick | grep -v KNOWN-FINDING | cut -c1-260
    echo "   -> rc=${PIPESTATUS[0]} for $SID"
  fi
done
