#!/bin/bash
# run the repository's own test suite (guard off) in the given tree (default /repo); prints the summary line
D="${1:-/repo}"
cd "$D" && env -u OFXTOOLS_VERIF PYTHONPATH="$D" /venv/bin/python -m pytest -q -p no:cacheprovider -n 16 --timeout=900 2>&1 | tail -5
