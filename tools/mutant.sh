#!/bin/bash
V=${VERIF_DIR:-$(cd "$(dirname "$(readlink -f "$0")")/.." && pwd)}
# usage: mutant.sh <patch.diff> <ID> [tier]   -- run one check against a scratch copy of /repo with the patch applied
P=$(readlink -f "$1"); ID=$2; TIER=${3:-quick}
D=$(mktemp -d /tmp/mut-XXXXXX)
rsync -a --exclude .git --exclude '*.diff' --exclude 'demo*.py' --exclude 'meta*.json' /repo/ "$D/"
if ! (cd "$D" && patch -p1 -s --no-backup-if-mismatch < "$P"); then echo "PATCH FAILED $P"; rm -rf "$D"; exit 3; fi
VERIF_REPO="$D" VERIF_OUT="$D/.vfout" $V/check "$ID" "$TIER" 2>&1 | grep -v '^WARNING conda' | cut -c1-400 | tail -${LINES_OUT:-6}
rc=${PIPESTATUS[0]}
rm -rf "$D"
exit $rc
