#!/bin/bash
V=${VERIF_DIR:-$(cd "$(dirname "$(readlink -f "$0")")/.." && pwd)}
# usage: run_seeded.sh [tier] [id-glob]  -- runs each seeded change against its property's check, in parallel; writes seeded/RESULTS.md
TIER=${1:-quick}; GLOB=${2:-*}
cd $V/seeded || exit 1
OUT=$(mktemp -d /tmp/seedrun-XXXXXX)
N=0
for d in $GLOB/; do
  sid=${d%/}; [ -f "$sid/patch.diff" ] || continue
  pid=${sid%%-*}
  ( LINES_OUT=3 $V/tools/mutant.sh "$sid/patch.diff" "$pid" "$TIER" > "$OUT/$sid.log" 2>&1; echo $? > "$OUT/$sid.rc" ) &
  N=$((N+1)); if [ $((N % 4)) = 0 ]; then wait; fi
done
wait
{
echo "# Seeded changes vs. checks (tier: $TIER, $(date -u +%F))"
echo
echo "| seeded | property | check exit | verdict | first violation signature |"
echo "|---|---|---|---|---|"
for f in "$OUT"/*.rc; do
  sid=$(basename "$f" .rc); pid=${sid%%-*}; rc=$(cat "$f")
  sig=$(grep -m1 'signature=' "$OUT/$sid.log" | sed 's/.*signature=\([^ ]*\).*/\1/' | cut -c1-90)
  v=MISSED; [ "$rc" = 1 ] && v=caught; [ "$rc" = 2 ] && v=harness-error; [ "$rc" = 3 ] && v=patch-failed
  echo "| $sid | $pid | $rc | $v | \`$sig\` |"
done
} > $V/seeded/RESULTS-$TIER.md
cat $V/seeded/RESULTS-$TIER.md
rm -rf "$OUT"
