#!/bin/bash
# regenerate every seeded/<id>/patch.diff against the current /repo tree (so that `git -C /repo apply` works without fuzz)
cd /verif/seeded || exit 1
for d in */; do
  sid=${d%/}; [ -f "$sid/patch.diff" ] || continue
  T=$(mktemp -d /tmp/refr-XXXXXX)
  rsync -a --exclude .git /repo/ofxtools "$T/a/" 
  rsync -a --exclude .git /repo/ofxtools "$T/b/"
  if (cd "$T/b" && patch -p1 -s --no-backup-if-mismatch < "/verif/seeded/$sid/patch.diff" >/dev/null 2>&1); then
    find "$T/b" -name '*.orig' -delete -o -name '*.rej' -delete
    (cd "$T" && diff -ruN a/ofxtools b/ofxtools | grep -v '^Only in' | sed -E 's#^(---|\+\+\+) ([ab]/ofxtools[^\t]*)\t.*#\1 \2#' ) > "$T/new.diff"
    if [ -s "$T/new.diff" ] && git -C /repo apply --check "$T/new.diff" 2>/dev/null; then cp "$T/new.diff" "/verif/seeded/$sid/patch.diff"; echo "$sid refreshed"; else echo "$sid: regenerated patch does not apply with git apply --check"; fi
  else
    echo "$sid: PATCH NO LONGER APPLIES"
  fi
  rm -rf "$T"
done
