#!/bin/bash
# usage: keep_mutant.sh <worktree> <k> <seeded-id>  -- confirm (demo+tests) and store under /verif/seeded/<seeded-id>/
W=$1; K=$2; SID=$3
R=$(/verif/tools/confirm_mutant.sh $W/patch$K.diff $W/demo$K.py)
echo "$SID: $R"
if echo "$R" | grep -q "^CONFIRMED"; then
  mkdir -p /verif/seeded/$SID
  cp $W/patch$K.diff /verif/seeded/$SID/patch.diff
  cp $W/demo$K.py /verif/seeded/$SID/demo.py
  python3 - "$W/meta$K.json" "/verif/seeded/$SID/meta.json" "$R" <<'PY'
import json,sys
try: m=json.load(open(sys.argv[1]))
except Exception as e: m={"summary":"(meta unreadable: %s)"%e}
m["confirmed_by_me"]=sys.argv[3].replace("\n"," | ")
m["confirm_cmd"]="tools/confirm_mutant.sh patch.diff demo.py  (scratch copy of /repo: demo on clean copy rc=0, demo with patch rc!=0, full test suite with patch)"
json.dump(m,open(sys.argv[2],"w"),indent=1)
PY
fi
