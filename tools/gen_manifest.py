#!/usr/bin/env python3
"""Regenerates /verif/MANIFEST.json from the table below + the set of check modules present."""
import json
import os

VERIF = os.path.dirname(os.path.dirname(os.path.abspath(__file__)))

CHECKS = {
    "C01": dict(
        cat="exploration",
        text="Exhaustive, deviation-bounded enumeration of model instances (every concrete aggregate class; MIN and MAXS "
        "baselines and every instance within k single-dimension deviations: presence, group member, value alphabet, "
        "list length/order) x 6 wire forms; each written by OFXClient.serialize and re-read by OFXTree.parse().convert(), "
        "compared by an independent deep comparer. Covers the whole stated sub-space, not a sample.",
        note="Values outside the value alphabets and nesting deeper than two levels below the root class are not explored; "
        "reference schema reader and comparer are trusted (self-checked against generators).",
        tech="bounded exhaustive enumeration (small-scope) of instances x wire forms on the real code, reference-model comparison",
        sec="C01",
    ),
    "C02": dict(
        cat="exploration",
        text="Every ordered tree with <=N nodes over a 3-name tag alphabet and 7-value data alphabet x every rendering within "
        "<=k deviations (omitted end tag, CDATA, 4 kinds of white space per token gap) is parsed by TreeBuilder and "
        "compared with the generating term; an independent scanner/builder reads every text as a cross-check.",
        note="Small-scope: tag/data alphabets are representatives; white space adjacent to CDATA is outside the alphabet.",
        tech="bounded exhaustive enumeration of trees x renderings, reference tokenizer as oracle",
        sec="C02",
    ),
    "C09": dict(
        cat="exploration",
        text="Every OFX date-time/time notation x every UTC offset -12:00..+14:00 in whole minutes (1561) in every spelling x boundary "
        "dates/times/milliseconds x zone names is read by the library and compared with an integer-arithmetic reference instant; every "
        "single-field corruption of valid texts must be rejected; every fixed-offset zone x sub-millisecond parts x boundary dates is written, "
        "checked lexically, for the rounded instant, and re-read. The offset and spelling spaces are covered completely.",
        note="Dates 1900-2200 boundary set, not every calendar day; second 60 and non-'.' offset separators unspecified; reference arithmetic trusted (self-checked).",
        tech="bounded exhaustive enumeration of notations x offsets x boundary values against an integer-arithmetic reference model",
        sec="C09",
    ),
    "C20": dict(
        cat="exploration",
        text="Digit sub-spaces enumerated completely (quick: 4x10^6 CUSIP bases, 10^6 SEDOL, every agency prefix x 10^3..10^5 ISIN endings; "
        "thorough: all 10^8 CUSIP digit bases, every prefix x 10^5), plus every base within <=2 positions of seed-chosen bases over the full "
        "alphabets (incl. * @ #); each compared with reference check-digit algorithms; completed ids must validate, every other check "
        "character must not, conversions must embed the original.",
        note="Alphanumeric spaces beyond 2-position variations are not covered; reference algorithms trusted (self-checked on published identifiers).",
        tech="exhaustive enumeration of digit sub-spaces and 2-position neighbourhoods against reference algorithms",
        sec="C20",
    ),
    "C05": dict(
        cat="exploration",
        text="Full product of v1 header layouts (uniform separator CRLF/LF/CR/none x blanks after colon x leading blank lines x header/body gap x "
        "COMPRESSION present/absent) x every (charset, body) pair encodable, all field-value combinations, separators deviating at <=2 boundaries, "
        "and the v2 product (quotes, standalone, encoding attribute, breaks, leading blank line) - each file parsed by parse_header and compared with "
        "reference fields and the exact body; OFXTree.parse compared with the reference tree.",
        note="Body alphabet of six bodies (ASCII, latin-1, cp1252-only, C1 control, UTF-8 multi-byte, multi-line); at most two leading blank lines.",
        tech="exhaustive product enumeration of header layouts x charsets x bodies against reference field tables",
        sec="C05",
    ),
    "C10": dict(
        cat="exploration",
        text="Every parameterisation of every converter (88 incl. required/optional and ListElement wrappers) x its whole small domain: all strings up to "
        "limit+1 over a 5-character alphabet, all integers within and just beyond the digit limit, all decimals m*10^-s |m|<=300 s<=4 in all spellings, "
        "boundary date-times/times in 6 zones, entity texts, None, non-values, wrong Python types; oracles: write-read identity, reference reading, "
        "canonical fixed point, None rules, limits, rejections.",
        note="Alphabets exclude Python-isms (1_0, exponent texts, bool-as-int) and strings that spell an entity on the write side.",
        tech="exhaustive enumeration of whole small domains per converter parameterisation against reference type rules",
        sec="C10",
    ),
    "C12": dict(
        cat="fault_enumeration",
        text="All supported versions and every 1xx x security levels x UIDs covering [A-Za-z0-9_-] (length 1 and 36) are generated, written, strictly re-read "
        "and parsed back; every single-field corruption (every foreign token per field incl. tokens of other fields, wrong OFXHEADER kind, bad VERSION, "
        "37-char UID), every omission and every adjacent transposition is fed through header text and constructor keywords and must be refused with OFXHeaderError.",
        note="COMPRESSION treated as optional (library grammar); multi-field corruptions not enumerated.",
        tech="exhaustive single-fault enumeration over header fields, both construction routes",
        sec="C12",
    ),
    "C13": dict(
        cat="exploration",
        text="The space is finite and is walked completely: every concrete aggregate class x every declared child x every group declared on any base. "
        "Static checks on the class dictionaries (class found by tag, attribute name = lower-cased member class, groups name existing optional "
        "non-repeated children and are in force) plus one construct / to_etree / from_etree probe per child and one full-instance probe per class with "
        "repeated kinds.",
        note="Reads class __dict__s along the MRO itself; the 24 Unsupported children of the pinned commit are taken as documented gaps.",
        tech="complete enumeration of a finite space (classes x declared children x groups) with a construct/write/read probe each",
        sec="C13",
    ),
    "C03": dict(
        cat="exploration",
        text="Complete over (class, declared data element, lexical form of its type): the smallest document containing the element, its text set to every form of the "
        "type's lexical alphabet (all entity escapes, both decimal separators, signs, leading zeros, every date/time notation x 10 offsets, enumeration tokens), rendered by "
        "the reference renderer as XML and SGML, converted by the library and compared both ways with the (path, value) pairs the reference type rules compute.",
        note="Quick tier walks first/last/every 7th enumeration token, thorough all; reference type rules and renderer trusted (self-checked).",
        tech="exhaustive enumeration of (class, element, lexical form) with a differential oracle (independent type rules)",
        sec="C03",
    ),
    "C04": dict(
        cat="fault_enumeration",
        text="Every constraint of every class (read from the class dictionaries: required, groups, enumerations, string/integer limits, sequence order, "
        "single occurrence, list member types, undeclared keywords) x both construction routes x a violating and a boundary variant one change away from a valid "
        "instance; violating must raise, boundary must build, every built instance is re-validated independently.",
        note="Hand-written validate_args rules are only honoured (to build valid baselines), not enumerated as constraints.",
        tech="exhaustive single-fault enumeration over declared constraints x construction routes",
        sec="C04",
    ),
    "C07": dict(
        cat="fault_enumeration",
        text="Every class x MIN/MAXS/two-members-per-kind documents x every child position (thorough: also one level deeper) x 6 kinds of unknown or vendor item x "
        "3 routes, plus all position pairs x 5 item pairs on MIN; the conversion must succeed and equal the conversion of the clean document.",
        note="Insertions are made by the harness into reference-rendered documents; at most two insertions at once.",
        tech="exhaustive fault-injection enumeration (positions x item kinds x routes) with a differential oracle",
        sec="C07",
    ),
    "C08": dict(
        cat="fault_enumeration",
        text="All small trees of the C02 alphabets (quick: <=3 nodes with every byte truncation + 4-node default-data trees; thorough: <=4 nodes) in XML and SGML rendering "
        "and the documents of 12 realistic roots x every single fault of the property's list (truncation, each aggregate end tag deleted/duplicated/misspelled/replaced, "
        "adjacent end tags transposed, stray end tag or text after every end tag, second top-level element); the strict reference reader filters faults that leave the text "
        "well-formed; every remaining text must make TreeBuilder.feed+close and OFXTree.parse raise.",
        note="Single faults only; tag/data alphabets as in C02.",
        tech="exhaustive single-fault enumeration over all small well-formed bodies, reference reader as well-formedness oracle",
        sec="C08",
    ),
    "C11": dict(
        cat="exploration",
        text="Every class x every data element x a trouble-value alphabet per type (decimals with positive/tiny exponents, normalize(), NaN/sNaN/Infinity, 29-30 digits; integer "
        "limits and bool; strings with markup, CDATA delimiters, entity text, at the limit; date-times in 5 zones with sub-ms carries; every enumeration token): leaf texts of "
        "to_etree() against the lexical rule of the declared type, then all 6 wire forms read by the strict reference reader; invalid ElementList members added via the list API.",
        note="Refusal at construction/to_etree/serialize is accepted; NagString not held to its limit.",
        tech="exhaustive enumeration of (class, element, trouble value) x wire forms against reference lexical rules",
        sec="C11",
    ),
    "C16": dict(
        cat="exploration",
        text="Every class x instance shapes (MIN, MAXS, each optional sub-aggregate / group / repeated kind toggled) x every name declared by exactly one non-repeated descendant "
        "(identity with the stored object or a clean miss) + undefined names (AttributeError, hasattr, default) + copy/deepcopy/pickle + alias properties; OFX trees from every "
        "sequence of <=3 wrappers over 7 request and 8 response kinds: statements shortcuts equal the explicit walk by identity and order.",
        note="Names defined by several descendants or shadowed by class attributes are not demanded.",
        tech="exhaustive enumeration of instance shapes x attribute names, explicit-path walk as reference",
        sec="C16",
    ),
    "C06": dict(
        cat="exploration",
        text="Client configurations (quick: within 2 deviations of the default; thorough: the full product of version x pretty x close_elements x FI x CLIENTUID x app id x "
        "language x credential alphabet) x all 156 request sequences of length 0..3 over the five statement request kinds + every single-request flag/date variant + account-info, "
        "profile and tax requests, all dry-run; the composed bytes are read by the strict reference reader and by the library and both are compared with the request expected from "
        "the caller's arguments.",
        note="TRNUID/NEWFILEUID checked for shape and distinctness, DTCLIENT for the call window; cross-kind order inside a message set not pinned.",
        tech="bounded exhaustive enumeration of configurations x request sequences against a reference model of the expected request",
        sec="C06",
    ),
    "C14": dict(
        cat="model_checking",
        text="Explicit-state search of closed systems (2 real OFXClient instances + scripted server + real cache directory): BFS over all sequences of 22 events (client, call, mode) "
        "to depth 3 (thorough 4) for each combination of advertised-URL kind x server cookie policy x second-client kind; states de-duplicated on cookie jars, cached profiles and "
        "server cookie flags; after every transition the HTTP exchanges of that event are checked against the model (count, method, URL, headers, anonymous vs real credentials, "
        "exact cookie set, returned bytes).",
        note="Only the socket is replaced (urllib http_open/https_open); the requests code path is not installed; depth-bounded.",
        tech="explicit-state model checking: BFS over event histories on the real client, state hashing, reference model checked per transition",
        sec="C14",
    ),
    "C15": dict(
        cat="model_checking",
        text="Four exhaustive explorations of request_profile: BFS over server-behaviour histories against a dict model of the cache (each path a model trace validated step by step); "
        "every crash state (every prefix of the file-operation log x torn pending writes) of every cache-writing scenario followed by recovery; all interleavings within the "
        "preemption bound of 2-3 concurrent calls at file/HTTP seams under a deterministic scheduler; client pairs against two servers in both orders.",
        note="Process crashes only (no metadata/data reordering); thread switches at file-operation and HTTP seams only.",
        tech="explicit-state BFS + crash-point enumeration + preemption-bounded schedule enumeration on the real code",
        sec="C15",
    ),
    "C18": dict(
        cat="model_checking",
        text="Precedence: every option x every subset of its sources and every option pair x source pair, each run re-importing the script module over freshly written configuration "
        "files and comparing merge_config's mapping with the precedence model. Persistence: explicit-state BFS over histories of ofxget runs (2 nicknames x 14 option sets x write / "
        "dry-run write, plain) with the text of ofxget.cfg as state; after each writing run a fresh run must see the same effective values, the other nickname, password, dry-run and "
        "default-CLIENTUID invariants are checked on every transition.",
        note="The FI database is a synthetic fi.cfg (ofxtools.config.CONFIGDIR redirected before the script module loads); keyring paths not installed; depth 2 (thorough 3).",
        tech="exhaustive source-subset enumeration + explicit-state BFS over run histories against a precedence/persistence model",
        sec="C18",
    ),
    "C19": dict(
        cat="exploration",
        text="`ofxget stmt|stmtend --dryrun` for every assignment of 0-2 account ids to the 6 (5) account types, every date option x notation, every flag subset; and `--all` against "
        "the scripted server for every account sequence up to length 2 (thorough 3) over 6 types x 3 service statuses; the request printed / received is read by the reference reader "
        "and must contain exactly the expected statement requests.",
        note="--all runs use --skipprofile and no configured accounts; one bank id / broker id.",
        tech="bounded exhaustive enumeration of command lines and server responses against a reference model of the expected request",
        sec="C19",
    ),
    "C17": dict(
        cat="model_checking",
        text="Operation alphabet of 22 library operations with fixed inputs. Histories: every sequence up to depth 2 (thorough: 3) run in a process forked from a pristine parent, every "
        "result compared with the same operation alone in a pristine process, inputs snapshotted before/after (purity), global-state fingerprints recorded. Schedules: pairs (thorough: "
        "also triples) of operations in real threads under a deterministic scheduler whose scheduling points are the lines / function entries executed inside ofxtools/, explored "
        "exhaustively within a preemption bound; every thread's result must equal its sequential baseline.",
        note="2-3 threads at line granularity (C extensions atomic); quick tier preempts tree/instance operations only at the first visit of each line; free-running 16-thread run is a smoke test only.",
        tech="explicit-state exploration of operation histories (fork per branch) + preemption-bounded stateless schedule enumeration (sys.settrace scheduler)",
        sec="C17",
    ),
}

NA_REASON = "check not built yet in this revision of /verif (planned: see DESIGN.md section 3); nothing is claimed for it"


# as-built additions (waves of seeded changes, DESIGN 8.6-8.12): appended to the level text; stale notes replaced
ADDENDA = {
    "C01": (" Also: every MAXS instance edited after a first write and written again; variations the term-level reference finds valid must be constructible; refused constructions and a look at the base classes between a class's baseline and its variations; failing library activity before the first case (disturb_process).", None),
    "C02": (" Also: every tree of <=3 nodes (with data holding blank lines / Windows-1252-only characters) as a whole file under 7 headers x 2 renderings, the returned header edited after every parse; every 10th tree through one re-used OFXTree; refused bodies first. The whole-file pass again with the loggers at DEBUG for the tight layouts and the 8-bit charsets.", None),
    "C03": (" Also: the enumeration tables pinned in vf/ref_enums.json; Windows-1252 files; one re-used OFXTree for the v1 renderings; a parsed tree edited in place and converted again; base classes looked at and refusals provoked first.", None),
    "C04": (" Also: the class-specific rules of 16 classes (reference written from the specification text), blank / empty group members, tokens of other enumerations, application subclasses, explicit-None keywords.", "Values are violated one constraint at a time; the class-specific rules are checked against vf.ref_schema.custom_problems."),
    "C05": (" Also: bodies of 144-180 KB with multi-byte characters at every alignment, text that is valid UTF-8 in a single-byte charset, CR-style leading blank lines, files again with the loggers at DEBUG, a file parsed again after the returned header was edited.", "Body alphabet of 12 bodies; a byte-order mark is not among the layouts the property names and is not demanded."),
    "C06": (" Also: logging at DEBUG and configuration by attribute assignment on a used client as configuration dimensions; request lists holding equal requests; call histories (<=2, thorough 3, of 7 disturbing calls) before a composition; dates in one zone object with daylight saving time; non-ASCII credentials.", None),
    "C07": (" Also: unknown items named like tags of other classes, like attributes of the class, digit-initial; an unknown / vendor aggregate wrapping a copy of each child; the same item twice; vendor items again at DEBUG. Unknown elements INTU.<NAME> / FWD<NAME> for every name the class declares; unknown aggregates with vendor-prefixed content.", None),
    "C08": (" Also: CDATA rendering; faults in front of the root; control characters; undecodable bytes in / behind end tags; files re-parsed by path after a same-length overwrite; a re-used OFXTree; the text fed in three pieces.", "Single faults only; tag/data alphabets as in C02; pieces are cut in front of aggregate start tags only (the regex tokenizer works per feed() call)."),
    "C09": (" Also: zones whose offset depends on the date (one shared tzinfo, both orders, the last half millisecond before a change, both passes of a repeated hour); the notations through ofxget's date options; date-times through the client's statement requests; the name-only offset [-:TZ] for the eight US zone names in every order of two and all in a row on one converter.", None),
    "C10": (" Also: OneOf over the library's currency / language / country tables and every enumeration converter declared by a model class, against the pinned tables. Years 100, 999, 1000; the broker form [-:TZ] for all zone names in a row on one converter.", None),
    "C11": (" Also: float / tuple decimals, padded and entity-like strings, tokens of other enumerations (accepted there first), fused code-table tokens, zones with single-digit offset minutes; failing library activity first. Date-times with years below 1000.", None),
    "C12": (" Also: stray non-ASCII bytes in field values; versions through OFXClient.serialize / request_profile overrides; headers edited by assignment and rendered again; the header of ONE client across per-call version overrides a, b, a for every ordered pair of supported versions.", None),
    "C13": (" Also: every probe a second time with the library loggers at DEBUG; base classes looked at first.", None),
    "C14": (" Also: events for closing-statement, credit-card and empty statement requests and for a server that never answers or answers 307 / 308 with another host (the POST must not be sent again); profile variants (banking only, moving URL, no statement service at all); a second client without a cookie jar; a client re-configured by assignment between requests; case-sensitive URLs.", None),
    "C15": (" Also: a second live client of the same institution in the history search (21 events), the search again at DEBUG; a re-pointed client and ORG-only / FID-only pairs in the two-server phase; schedules at line granularity inside Client.py; successive profile versions stamped in four time zones (incl. -3:30, -9:30).", None),
    "C16": (" Also: shapes with falsy values, the MAXS shape at DEBUG, copies of read-back instances, shortcuts re-read after the tree was edited, wrappers without a statement. An unset (None) name of a present holder must read as None.", None),
    "C17": (" As built: 52 operations (a second client sharing the ORG, write-look-write of a response with two security lists; documents, trees, converters probed wide / narrow, end-tag-less writer, a shared client with per-call overrides, header edited between parses, ofxget readers given non-OFX answers, failing parses).", "2-3 threads; line, call and first-visit granularities as listed in the evidence; C extensions are atomic to the scheduler; capped pairs are counted in the evidence."),
    "C18": (" Also: the client ofxget builds from the merged settings (init_client) carries the value in effect for each of 14 options.", None),
    "C19": (" Also: --all for a configured nickname (by URL or OFX Home id): every subset of configured types without an ACTIVE account, ids with blanks, one number under several types, runs with -v -v.", "One bank id / broker id per run; --all runs use --skipprofile."),
    "C20": (" Also: every function x every class of refused argument followed by a re-check of 12 valid ids; consonants and digits as replacement check characters.", None),
}

def main():
    props = [json.loads(l) for l in open(os.path.join(VERIF, "properties.jsonl"))]
    checks, na = [], []
    for p in props:
        pid = p["id"]
        have = os.path.exists(os.path.join(VERIF, "vf", "checks", pid.lower() + ".py"))
        c = CHECKS.get(pid)
        if have and c:
            checks.append(
                {
                    "property_id": pid,
                    "quick_cmd": f"./check {pid} quick",
                    "thorough_cmd": f"./check {pid} thorough",
                    "evidence_file": f"/verif/evidence/{pid}.json",
                    "replay_cmd_template": f"./check {pid} --replay {{path}}",
                    "engine": "vf",
                    "level_claimed": {"category": c["cat"], "text": c["text"] + ADDENDA.get(pid, ("", None))[0], "design_ref": "DESIGN.md §3 " + c["sec"] + " and §8"},
                    "level_note": ADDENDA.get(pid, ("", None))[1] or c["note"],
                    "technique": c["tech"],
                }
            )
        else:
            na.append({"property_id": pid, "reason": NA_REASON})
    man = {
        "version": 1,
        "setup_cmd": "true",
        "hooks": {
            "guard": "OFXTOOLS_VERIF",
            "enable": "no source hooks: every seam is a stdlib name patched inside the check process "
            "(urllib handlers, open/os.*, sys.settrace) or an XDG_* environment variable; ./check exports OFXTOOLS_VERIF=1 for form only",
            "baseline_off_cmd": "cd /repo && /venv/bin/python -m pytest -ra -q -p no:cacheprovider --timeout=900 --continue-on-collection-errors",
            "source_commits": [],
            "add_only": True,
        },
        "engines": [
            {
                "name": "vf",
                "path": "/verif/vf",
                "serves_properties": [c["property_id"] for c in checks],
                "kind_free_text": "hand-written explicit-state / bounded-exhaustive explorer in Python driving the real ofxtools code "
                "(deviation-bounded product enumerator, BFS over operation histories, preemption-bounded thread scheduler, "
                "file-operation log + crash-state generator, in-process HTTP seam) against small reference models",
            }
        ],
        "checks": checks,
        "not_applicable": na,
        "notes": "All checks: ./check <ID> quick|thorough; evidence in /verif/evidence/<ID>.json; known findings in /verif/known_findings.json.",
    }
    with open(os.path.join(VERIF, "MANIFEST.json"), "w") as f:
        json.dump(man, f, indent=1)
        f.write("\n")
    print(f"{len(checks)} checks, {len(na)} not_applicable")


if __name__ == "__main__":
    main()
